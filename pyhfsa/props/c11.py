"""C11 -- results are independent of the history of backend switches.

Decided statically: the subscription protocol the code itself declares.
  R1 PROV  refresh completeness: every attribute that ever holds a value of
           the *current* backend is (re)assigned by a method that __init__
           subscribes to 'tensorlib_changed' on every path
  R2 PROV  neutral sources: inside such a refresh method every right-hand
           side reads only backend-neutral attributes, or current-backend
           attributes already refreshed earlier in the same method
  R3 ORDER sub-objects whose current-backend attributes a refresh method
           reads are constructed (hence subscribed) before that method is
  R4 ORDER set_backend swaps the state before triggering; the trigger
           condition covers name and precision; _setup() on every normal path
  R5 EFFECT the callback registry holds weak references only, calls bound
           callbacks only when the receiver is alive, flushes dead ones
"""

from __future__ import annotations

import ast

from .. import astutil as A
from ..cfg import CFG
from ..dep import Deps
from ..prov import CUR, DEF, NAMES, PY, analyse_class, subscriptions

EXPLANATION = (
    "Provenance typestate over the persistent classes of the model construction closure and the interpolators: "
    "values are PY / DEF (default backend) / CUR (current backend) by a forward dataflow from get_backend() and "
    "pyhf.default_backend; every CUR-typed attribute must be re-derived by a method subscribed to "
    "'tensorlib_changed' (R1) from backend-neutral sources or from attributes refreshed earlier in that method (R2), "
    "sub-objects it reads are subscribed earlier (R3); set_backend replaces state['current'] before the trigger, the "
    "trigger condition depends on name and precision of old and new backend, _setup() is on every normal path (R4); "
    "events.Callables stores only weakrefs and checks liveness before calling (R5); Callables, subscribe and trigger are "
    "interpreted over a modelled weakref (liveness table): histories of subscriptions, collections (also DURING a dispatch) "
    "and triggers must call exactly the live subscribers, once, in subscription order, with the arguments (R6). This is a statement about all "
    "switch histories decided without performing a switch. NOT decided: numerical equality after a switch, the jit "
    "cache of opt_jax, user-defined backends/modifiers."
)
ASSUMPTIONS = [
    "callbacks of one event run in subscription order (events.Callables is a list)",
    "backend handle resolver: get_backend()[0] / pyhf.tensorlib = current, pyhf.default_backend = default",
    "transient value objects (probability.*, EmpiricalDistribution, calculators) are outside the property's 'model, interpolator, viewer'",
]

SCOPE_FILES = [
    "src/pyhf/pdf.py",
    "src/pyhf/constraints.py",
    "src/pyhf/mixins.py",
    "src/pyhf/tensor/common.py",
    "src/pyhf/parameters/paramview.py",
    "src/pyhf/parameters/paramsets.py",
    "src/pyhf/modifiers/histosys.py",
    "src/pyhf/modifiers/normsys.py",
    "src/pyhf/modifiers/normfactor.py",
    "src/pyhf/modifiers/lumi.py",
    "src/pyhf/modifiers/shapesys.py",
    "src/pyhf/modifiers/staterror.py",
    "src/pyhf/modifiers/shapefactor.py",
    "src/pyhf/interpolators/code0.py",
    "src/pyhf/interpolators/code1.py",
    "src/pyhf/interpolators/code2.py",
    "src/pyhf/interpolators/code4.py",
    "src/pyhf/interpolators/code4p.py",
]
FLOOR_CLASSES = 17
FLOOR_ATTRS = 70


def scoped_classes(repo):
    out = []
    for rel in SCOPE_FILES:
        m = repo.module(rel)
        for c in m.classes.values():
            out.append(c)
    return out


# R4 and R5 know the statement order / storage shape of the pinned tree; R7 and R6 decide the same clauses by behaviour
DEFER = [(["C11.R4"], ["C11.R7"]), (["C11.R5"], ["C11.R6"])]


def run(ctx):
    repo = ctx.repo
    r1 = ctx.rule(
        "C11.R1",
        "PROV refresh completeness: every self-attribute that is assigned a current-backend value anywhere in a "
        "persistent class is assigned in a method that __init__ subscribes to 'tensorlib_changed' on every normal "
        "path (interpolators: `if subscribe:` with default True and no in-package caller passing False)",
        "PROV", floor=FLOOR_ATTRS,
    )
    r2 = ctx.rule(
        "C11.R2",
        "PROV neutral sources: a subscribed refresh method reads only backend-neutral attributes or current-backend "
        "attributes it has itself assigned earlier (otherwise it copies a stale tensor)",
        "PROV", floor=FLOOR_CLASSES,
    )
    r3 = ctx.rule(
        "C11.R3",
        "ORDER: a sub-object whose attributes a refresh method reads is constructed (and therefore subscribed) before "
        "that method is subscribed, because callbacks run in subscription order",
        "ORDER", floor=8,
    )
    classes = scoped_classes(repo)
    provs = {}
    n_sub = 0
    n_cur = 0
    subscribed_class_names = set()
    for c in classes:
        for m in c.methods.values():
            ctx.touch(m)
        cp = analyse_class(c, repo)
        provs[c.name] = cp
        if cp.subscribed:
            n_sub += 1
            subscribed_class_names.add(c.name)

    # which interpolator-like classes guard the subscription with a parameter
    for c in classes:
        cp = provs[c.name]
        init = c.methods.get("__init__")
        cur_attrs = sorted(a for a, p in cp.attr_prov.items() if p == CUR)
        if not cur_attrs and not cp.subscribed:
            continue
        if init is None:
            if cur_attrs:
                ctx.violated(r1, c, c.name, f"class holds current-backend attributes {cur_attrs} but has no __init__ subscribing a refresh", node=c.node)
            continue
        # -- subscription on every normal path of __init__
        refresh_methods = set()
        g = CFG.build(init.node.body)
        for mname, call in cp.subscribed.items():
            stmt = _stmt_containing(init.node, call)
            guard_ok, why = _subscription_unconditional(repo, c, init, g, stmt)
            if guard_ok:
                refresh_methods.add(mname)
            else:
                ctx.violated(r1, init, stmt, f"subscription of `{mname}` to 'tensorlib_changed' is not reached on every normal path of __init__: {why}", node=stmt)
        # refresh closure: methods called on self from a refresh method
        closure = set(refresh_methods)
        todo = list(refresh_methods)
        while todo:
            mn = todo.pop()
            m = c.methods.get(mn)
            if m is None:
                continue
            for call in A.calls_in(m.node, into_defs=False):
                d = A.dotted(call.func)
                if d and d.startswith("self.") and d.count(".") == 1:
                    nm = d.split(".")[1]
                    if nm in c.methods and nm not in closure:
                        closure.add(nm)
                        todo.append(nm)
        for a in cur_attrs:
            n_cur += 1
            where = sorted({x.method for x in cp.assigns if x.attr == a})
            refreshed = [x for x in cp.assigns if x.attr == a and x.method in closure]
            site = f"{c.relpath}::{c.name}.{a}"
            if refreshed:
                ctx.holds(r1, site, f"assigned in {where}; refreshed by subscribed {sorted(set(x.method for x in refreshed))}")
            else:
                first = next(x for x in cp.assigns if x.attr == a and x.prov == CUR)
                ctx.violated(
                    r1, (c.relpath, f"{c.name}.{first.method}"), first.node,
                    f"attribute `self.{a}` holds a tensor/handle of the current backend (assigned in {where}) but no method subscribed to "
                    f"'tensorlib_changed' re-derives it: after set_backend() it is stale",
                    expected=f"assignment of self.{a} inside {sorted(closure) or 'a subscribed refresh method'}",
                    found=f"assigned only in {where}", node=first.node,
                )
        # -- a sub-object constructed with its own subscription switched OFF (`subscribe=False`, whatever the callee is: the
        #    interpolator classes are looked up dynamically) must be refreshed by its owner: a subscribed method of the owner
        #    calls `self.<attr>._precompute()` on every normal path
        for st_ in ast.walk(init.node):
            if not (isinstance(st_, ast.Assign) and isinstance(st_.value, ast.Call)):
                continue
            off = [k_ for k_ in st_.value.keywords if k_.arg == "subscribe" and A.const_value(k_.value) is not True]
            tgt = next((A.dotted(t_) for t_ in st_.targets if (A.dotted(t_) or "").startswith("self.")), None)
            if not off or tgt is None:
                continue
            attr_ = tgt.split(".", 1)[1]
            ok_refresh = False
            for mn_ in sorted(closure):
                m_ = c.methods.get(mn_)
                if m_ is None:
                    continue
                calls_ = [cc for cc in A.calls_in(m_.node, into_defs=False) if A.dotted(cc.func) == f"self.{attr_}._precompute"]
                if not calls_:
                    continue
                # the repo's idiom `if not self.param_viewer.index_selection: return` at the top of a refresh method leaves when the
                # owner has no modifiers at all -- then it has no sub-object either: not a path on which a refresh is owed
                body_ = [b_ for b_ in m_.node.body if not (isinstance(b_, ast.If) and not b_.orelse and len(b_.body) == 1 and isinstance(b_.body[0], ast.Return) and b_.body[0].value is None and "index_selection" in A.unparse(b_.test))]
                g_ = CFG.build(body_)
                stmt_ = _stmt_containing(m_.node, calls_[0])
                ok_, _w = g_.all_paths_pass(lambda n, stmt_=stmt_: n.stmt is stmt_)
                if ok_:
                    ok_refresh = True
            if ok_refresh:
                ctx.holds(r1, f"{c.relpath}::{c.name}.{attr_} [constructed with subscribe=False]", "refreshed by the owner's subscribed method on every path")
            else:
                ctx.violated(r1, init, st_, f"`self.{attr_}` is constructed with its own subscription to 'tensorlib_changed' switched off (`subscribe=False`) and no subscribed method of {c.name} refreshes it on EVERY path (`self.{attr_}._precompute()` missing, or only in one arm of a branch): after a backend switch it keeps the tensors of the previous backend / precision", expected=f"self.{attr_}._precompute() on every path of {sorted(closure) or 'a subscribed method'}", found="not refreshed on every path", node=st_)
        # -- R2 / R3 inside refresh methods
        for mn in sorted(refresh_methods):
            m = c.methods.get(mn)
            if m is None:
                ctx.violated(r1, init, cp.subscribed[mn], f"subscribed method `{mn}` does not exist on {c.name}")
                continue
            _check_refresh_method(ctx, r2, r3, repo, c, cp, m, init, provs, subscribed_class_names)

    # -- what is collected ONCE while a model is built (builders, the nominal builder, parameter requirements) is kept for the
    #    model's life and converted to the current backend on every switch: it must be backend-neutral python / default-backend
    #    data, never something computed with the backend that happened to be current at construction
    n_neutral = 0
    builder_funcs = []
    for c_ in repo.all_classes():
        if c_.name.endswith("_builder") and ("/modifiers/" in c_.relpath or c_.relpath.endswith("pdf.py")):
            builder_funcs += [(f"{c_.name}.{m_.name}", m_) for m_ in c_.methods.values()]
    for m_ in repo.modules.values():
        if "/modifiers/" in m_.relpath or m_.relpath.endswith(("pdf.py", "parameters/utils.py", "parameters/paramsets.py")):
            for q_, f_ in m_.funcs.items():
                if q_ in ("required_parset", "_nominal_and_modifiers_from_spec", "_finalize_parameters_specs", "_create_parameters_from_spec", "reduce_paramsets_requirements"):
                    builder_funcs.append((q_, f_))
        if m_.relpath.endswith("parameters/paramsets.py"):
            for c_ in m_.classes.values():
                builder_funcs += [(f"{c_.name}.{x_.name}", x_) for x_ in c_.methods.values() if x_.name == "__init__"]
    for label_, f_ in builder_funcs:
        ctx.touch(f_)
        n_neutral += 1
        hits = [n for n in ast.walk(f_.node) if isinstance(n, ast.Call) and (A.dotted(n.func) or "").split(".")[-1] == "get_backend"]
        hits += [n for n in ast.walk(f_.node) if isinstance(n, ast.Attribute) and A.dotted(n) in ("pyhf.tensorlib",)]
        if hits:
            ctx.violated(r1, f_, f"construction-time data in {label_}", f"`{label_}` runs once, while the model is built, and computes stored data with the CURRENT backend (`{A.short(hits[0], 40)}`): a model built under 32-bit precision keeps single-precision roundings in its private data for life, so after a switch it no longer evaluates like a freshly built one", expected="python values or pyhf.default_backend in construction-time code", found=A.short(hits[0], 40), node=hits[0])
        else:
            ctx.holds(r1, f"{f_.relpath}::{label_} [construction-time]", "backend-neutral")
    ctx.extra["construction_time_functions"] = n_neutral
    ctx.extra["scoped_classes"] = len(classes)
    ctx.extra["subscribed_classes"] = n_sub
    ctx.extra["current_backend_attributes"] = n_cur
    if n_sub < FLOOR_CLASSES:
        ctx.error(f"C11.R1: only {n_sub} classes subscribe a refresh method, floor is {FLOOR_CLASSES}")

    _r4_set_backend(ctx)
    _r5_callables(ctx)
    _r6_dispatch(ctx)
    _r7_switch_histories(ctx)
    _r8_jit_arguments(ctx)
    r9 = ctx.rule("C11.R9", "MEMO-STATE (effect rule, whole package): no memoised function (functools.lru_cache / cache) anywhere in src/pyhf reads -- itself or through the package functions it calls -- the current backend (get_backend(), pyhf.tensorlib, pyhf.default_backend, pyhf.optimizer) or any module state the package rebinds at run time: such a function would keep answering for the backend of its first call after a switch", "EFFECT", floor=1)
    from .. import memo
    ctx.extra["memoised_functions_in_package"] = memo.check(ctx, r9, sorted(ctx.repo.by_relpath))
    # per-instance memoisation: a cached_property (or an lru_cache'd method) freezes what it computed on first access for the
    # life of the object; it may not read an attribute that a subscribed refresh method re-derives on a backend switch, nor the
    # current backend itself
    cur_names = {a for cp_ in provs.values() for a, p_ in cp_.attr_prov.items() if p_ == CUR}
    n_frozen = 0
    for c_ in repo.all_classes():
        for m_ in c_.methods.values():
            decos = [(A.dotted(d.func) if isinstance(d, ast.Call) else A.dotted(d)) or "" for d in m_.node.decorator_list]
            if not any(d.split(".")[-1] in ("cached_property", "lru_cache", "cache") for d in decos):
                continue
            n_frozen += 1
            ctx.touch(m_)
            hits = [n for n in ast.walk(m_.node) if isinstance(n, ast.Attribute) and isinstance(n.ctx, ast.Load) and n.attr in cur_names and not (isinstance(n.value, ast.Name) and n.value.id in ("np", "math"))]
            hits += [n for n in ast.walk(m_.node) if isinstance(n, ast.Call) and (A.dotted(n.func) or "").split(".")[-1] == "get_backend"]
            if hits:
                ctx.violated(r9, m_, f"per-instance memo {c_.name}.{m_.name}", f"`{c_.name}.{m_.name}` is computed once per object ({', '.join(d for d in decos if d)}) from `{A.short(hits[0], 50)}`, which is re-derived for the new backend on every switch: after a switch the object keeps handing out the tensor of the backend that was current at the FIRST access, a freshly created object the current one", expected="a plain property (recomputed on access), or state refreshed by the subscribed method", found=A.short(hits[0], 50), node=hits[0])
            else:
                ctx.holds(r9, f"{c_.relpath}::{c_.name}.{m_.name} [per-instance memo]", "reads nothing that a backend switch re-derives")
    ctx.extra["per_instance_memos"] = n_frozen


# ----------------------------------------------------------------------
def _stmt_containing(fn_node, node):
    pm = A.parent_map(fn_node)
    return A.stmt_of(node, pm)


def _subscription_unconditional(repo, c, init, g: CFG, stmt):
    """Every path entry->RETURN passes the subscribe statement; an `if <param>:` guard is
    accepted when the parameter defaults to True and no in-package constructor call passes it falsy."""
    target = stmt

    def is_sub(node):
        return node.stmt is target

    ok, wit = g.all_paths_pass(is_sub)
    if ok:
        return True, ""
    # look for a guarding `if <param>` whose false edge skips the subscription
    pm = A.parent_map(init.node)
    par = pm.get(stmt)
    if isinstance(par, ast.If) and isinstance(par.test, ast.Name) and stmt in par.body:
        p = par.test.id
        dflt = A.param_defaults(init.node).get(p)
        if dflt is not None and A.const_value(dflt) is True:
            # treat the If as the obligation instead
            ok2, wit2 = g.all_paths_pass(lambda n: n.stmt is par)
            if not ok2:
                return False, "guarded subscription is itself not on every path: " + " > ".join(g.describe(wit2))
            # no in-package caller passes it falsy
            bad = []
            for m in repo.modules.values():
                for call in A.calls_in(m.tree):
                    nm = A.call_attr(call)
                    if nm == c.name:
                        b = A.bind_args(call, init.node, skip_self=True)
                        v = b.get(p)
                        if v is not None and A.const_value(v) is not True:
                            bad.append(f"{m.relpath}:{call.lineno}")
            if bad:
                return False, f"constructor called with {p}=<not True> at {bad}"
            return True, ""
    return False, "path " + " > ".join(g.describe(wit))


def _self_reads(expr, cls_name):
    """(attr, chain) for self.attr[.more] loads inside expr."""
    out = []
    seen = set()
    inner = {id(n.value) for n in ast.walk(expr) if isinstance(n, ast.Attribute)}
    for n in ast.walk(expr):
        if isinstance(n, ast.Attribute) and id(n) not in inner:
            d = A.dotted(n)
            if d and d.startswith("self."):
                parts = d.split(".")
                key = tuple(parts[:3])
                if key in seen:
                    continue
                seen.add(key)
                out.append((A.mangle(cls_name, parts[1]), parts[2] if len(parts) > 2 else None, n))
    # keep only maximal chains: drop (a,None) when (a,x) present from the same node family
    return out


def _check_refresh_method(ctx, r2, r3, repo, c, cp, m, init, provs, subscribed_class_names):
    cur = {a for a, p in cp.attr_prov.items() if p == CUR}
    assigned = set()
    site = f"{c.relpath}::{c.name}.{m.name}"
    stale = []
    sub_reads = {}
    # statements in source order; reads in tests/values, then mark targets
    for st in A.walk_ordered(m.node, into_defs=False):
        if isinstance(st, (ast.Assign, ast.AugAssign, ast.AnnAssign)):
            val = st.value
            tgts = st.targets if isinstance(st, ast.Assign) else [st.target]
            for a, sub, node in _self_reads(val, c.name) if val is not None else []:
                if a in cp.sub_objects:
                    sub_reads.setdefault(a, set()).add(sub or "*")
                if a in cur and a not in assigned:
                    stale.append((a, st))
            for t in tgts:
                for tt in (t.elts if isinstance(t, (ast.Tuple, ast.List)) else [t]):
                    d = A.dotted(tt)
                    if d and d.startswith("self.") and d.count(".") == 1:
                        assigned.add(A.mangle(c.name, d.split(".")[1]))
        elif isinstance(st, (ast.If, ast.While)):
            for a, sub, node in _self_reads(st.test, c.name):
                if a in cp.sub_objects:
                    sub_reads.setdefault(a, set()).add(sub or "*")
                if a in cur and a not in assigned:
                    stale.append((a, st))
        elif isinstance(st, ast.Expr) and isinstance(st.value, ast.Call):
            # self.helper() inside the refresh: its assignments count
            d = A.dotted(st.value.func)
            if d and d.startswith("self.") and d.count(".") == 1 and d.split(".")[1] in c.methods:
                for x in cp.assigns:
                    if x.method == d.split(".")[1]:
                        assigned.add(x.attr)
    if stale:
        for a, st in stale:
            ctx.violated(
                r2, m, st,
                f"refresh method reads `self.{a}` (current-backend typed) before re-deriving it: the value copied is the one of the previous backend",
                expected=f"self.{a} assigned earlier in {m.name}, or a backend-neutral source", found=f"read of self.{a}", node=st,
            )
    else:
        ctx.holds(r2, site, f"reads only neutral sources / attributes refreshed earlier ({len(assigned)} assigned)")
    # R3
    g = None
    for a, subs in sorted(sub_reads.items()):
        subcls, ctor_stmt = cp.sub_objects[a]
        if subcls.name not in subscribed_class_names:
            continue
        subprov = provs.get(subcls.name)
        cur_sub = sorted(s for s in subs if subprov and (subprov.attr_prov.get(s, PY) == CUR or (s == "*" and CUR in subprov.attr_prov.values())))
        if not cur_sub:
            continue
        sub_stmt = _stmt_containing(init.node, cp.subscribed[m.name])
        if ctor_stmt.lineno < sub_stmt.lineno and _dominates(init, ctor_stmt, sub_stmt):
            ctx.holds(r3, f"{site} reads self.{a}.{{{','.join(cur_sub)}}}", f"{subcls.name} constructed (L{ctor_stmt.lineno}) before subscription (L{sub_stmt.lineno})")
        else:
            ctx.violated(
                r3, init, sub_stmt,
                f"`{m.name}` reads current-backend attributes {cur_sub} of sub-object self.{a} ({subcls.name}) but is subscribed before that object is "
                f"constructed: on a backend switch it runs first and copies stale values",
                expected=f"self.{a} = {subcls.name}(...) before events.subscribe(...)(self.{m.name})", node=sub_stmt,
            )


def _dominates(fn, a_stmt, b_stmt):
    g = CFG.build(fn.node.body)
    return g.dominates(a_stmt, b_stmt)


# ----------------------------------------------------------------------
MAN = "src/pyhf/tensor/manager.py"
EV = "src/pyhf/events.py"


def _r4_set_backend(ctx):
    repo = ctx.repo
    r4 = ctx.rule(
        "C11.R4",
        "ORDER/DEP set_backend: state['current'] is replaced before events.trigger('tensorlib_changed') fires; the guard of "
        "the trigger depends on name AND precision of both the new and the old backend and is computed before the swap; "
        "new_backend._setup() lies on every normal path",
        "ORDER", floor=4,
    )
    sb = repo.func(MAN, "set_backend")
    ctx.touch(sb)
    g = CFG.build(sb.node.body)
    dom = g.dominators()
    pm = A.parent_map(sb.node)
    # the swap
    swaps = []
    for n in ast.walk(sb.node):
        if isinstance(n, ast.Assign):
            for t in n.targets:
                if isinstance(t, ast.Subscript) and A.const_value(t.slice) == "current" and (A.dotted(t.value) or "").endswith("state"):
                    swaps.append(n)
    trig = []
    for c in A.calls_in(sb.node):
        f = c.func
        if isinstance(f, ast.Call) and A.call_attr(f) == "trigger" and f.args and A.const_value(f.args[0]) == "tensorlib_changed":
            trig.append(c)
    if not swaps or not trig:
        ctx.unrecognised(r4, sb, "set_backend", f"state swap ({len(swaps)}) or trigger ({len(trig)}) not found")
        return
    for t in trig:
        tst = A.stmt_of(t, pm)
        if any(g.dominates(s, tst, dom) for s in swaps):
            ctx.holds(r4, f"{MAN}::set_backend: swap dominates trigger (L{tst.lineno})")
        else:
            ctx.violated(r4, sb, tst, "events.trigger('tensorlib_changed') can run before state['current'] is replaced: every subscriber re-derives its tensors with the OLD backend",
                         expected="this.state['current'] = (new_backend, ...) before the trigger", node=tst)
        # guard
        guard = A.enclosing(tst, pm, ast.If)
        if guard is None:
            ctx.holds(r4, f"{MAN}::set_backend: trigger unconditional")
            continue
        deps = Deps(sb.node)
        roots = deps.roots_of(guard.test)
        cond_exprs = [guard.test]
        for nm in A.names_loaded(guard.test):
            cond_exprs += deps.defs.get(nm, [])
        attrs = set()
        reads_state = False
        for e in cond_exprs:
            for n in ast.walk(e):
                if isinstance(n, ast.Attribute) and n.attr in ("name", "precision"):
                    attrs.add(n.attr)
                if isinstance(n, ast.Subscript) and A.const_value(n.slice) == "current":
                    reads_state = True
        missing = {"name", "precision"} - attrs
        if missing or not reads_state or "backend" not in roots:
            ctx.violated(r4, sb, guard.test, f"the condition that fires 'tensorlib_changed' does not compare {sorted(missing) or 'old vs new backend'}: a switch that only changes it leaves every cached tensor stale",
                         expected="(new.name != old.name) | (new.precision != old.precision)", found=A.short(cond_exprs[-1], 120), node=guard)
        else:
            ctx.holds(r4, f"{MAN}::set_backend: trigger guard compares name and precision of new vs current")
        # guard variable computed before the swap
        for nm in A.names_loaded(guard.test):
            for n in ast.walk(sb.node):
                if isinstance(n, ast.Assign) and any(isinstance(t2, ast.Name) and t2.id == nm for t2 in n.targets):
                    if any(g.dominates(n, s, dom) for s in swaps):
                        ctx.holds(r4, f"{MAN}::set_backend: `{nm}` computed before the swap")
                    else:
                        ctx.violated(r4, sb, n, f"`{nm}` is computed after state['current'] was replaced: it compares the new backend with itself and never fires",
                                     expected="comparison before the swap", node=n)
    # the backend whose name/precision is compared is the backend that gets installed: no rebinding in between
    for s_ in swaps:
        inst = s_.value.elts[0] if isinstance(s_.value, ast.Tuple) and s_.value.elts else None
        if not isinstance(inst, ast.Name):
            continue
        var = inst.id
        cmps = [n for n in ast.walk(sb.node) if isinstance(n, ast.Assign) and any(isinstance(x, ast.Attribute) and x.attr in ("name", "precision") and isinstance(x.value, ast.Name) and x.value.id == var for x in ast.walk(n.value)) and any(isinstance(x, ast.Subscript) and A.const_value(x.slice) == "current" for x in ast.walk(n.value))]
        rebinds = [n for n in ast.walk(sb.node) if isinstance(n, ast.Assign) and any(isinstance(t2, ast.Name) and t2.id == var for t2 in n.targets)]
        for cmp_ in cmps:
            n_cmp, n_swap = g.node_of(cmp_), g.node_of(s_)
            after_cmp = g.reachable(n_cmp) if n_cmp is not None else set()
            late = [rb for rb in rebinds if g.node_of(rb) in after_cmp and g.node_of(rb) != n_cmp and n_swap in g.reachable(g.node_of(rb))]
            if late:
                ctx.violated(r4, sb, late[0], f"`{var}` is re-created after its name/precision were compared with the current backend and before it is installed: the backend that is installed can differ from the one the change test looked at (a precision switch through precision=... fires no event and every cached tensor stays stale)", expected="the comparison after the last assignment of the backend object", node=late[0])
            else:
                ctx.holds(r4, f"{MAN}::set_backend: `{var}` compared == `{var}` installed", "no rebinding between the change test and the swap")

    # _setup on every normal path
    def is_setup(node):
        return any(A.call_attr(c) == "_setup" for c in A.calls_in(node.stmt, into_defs=False)) if not isinstance(node.stmt, (ast.If, ast.For, ast.While, ast.Try, ast.With)) else False
    ok, wit = g.all_paths_pass(is_setup)
    if ok:
        ctx.holds(r4, f"{MAN}::set_backend: _setup() on every normal path")
    else:
        ctx.violated(r4, sb, "new_backend._setup()", "a normal return path of set_backend skips new_backend._setup() (global precision flags of the backend library are not applied)",
                     found=" > ".join(g.describe(wit)))


def _r5_callables(ctx):
    repo = ctx.repo
    r5 = ctx.rule(
        "C11.R5",
        "EFFECT events.Callables.append: what is stored in the registry is made of weak references (weakref.*) and None only -- a "
        "strong reference would keep every model ever built alive and refreshed at every switch (what is CALLED is decided by R6)",
        "EFFECT", floor=1,
    )
    cal = repo.cls(EV, "Callables")
    app = cal.methods.get("append")
    if not app:
        ctx.unrecognised(r5, cal, "Callables", "append not present")
        return
    ctx.touch(app)
    # append: what reaches self._callbacks.append(...)
    deps = Deps(app.node)
    stores = [c for c in A.calls_in(app.node) if A.call_attr(c) == "append" and (A.dotted(c.func.value) or "").startswith("self.")]
    if not stores:
        ctx.unrecognised(r5, app, "append", "no store into the callback list found")
    for s in stores:
        vals = []
        for a in s.args:
            if isinstance(a, ast.Name):
                vals += deps.defs.get(a.id, [])
            else:
                vals.append(a)
        bad = []
        for v in vals:
            for leaf in (v.elts if isinstance(v, ast.Tuple) else [v]):
                if isinstance(leaf, ast.Constant) and leaf.value is None:
                    continue
                if isinstance(leaf, ast.Call) and (A.call_name(leaf) or "").split(".")[0] == "weakref":
                    continue
                bad.append(leaf)
        if bad:
            ctx.violated(r5, app, s, "the callback registry stores a strong reference: subscribed models are kept alive and called forever",
                         expected="weakref.ref(...) / None", found=A.short(bad[0], 60), node=s)
        else:
            ctx.holds(r5, f"{EV}::Callables.append", "stores (weakref, weakref|None) only")


def _in_body(ifnode, node):
    for st in ifnode.body:
        for n in ast.walk(st):
            if n is node:
                return True
    return False


def _r6_dispatch(ctx):
    """events.Callables / subscribe / trigger interpreted over a model of weakref (a liveness table the scenario
    controls): which subscribers are called, with what, in which order, across histories."""
    from ..alg import NotHandled, Obj, Poly, PyFunc, RaisedInFragment, Undecided
    from ..objmodel import Instance, World
    repo = ctx.repo
    r6 = ctx.rule(
        "C11.R6",
        "DISPATCH (interpreted): over histories of subscribe / receiver collected / trigger -- also a receiver collected by an "
        "earlier callback of the same dispatch -- every live subscriber (bound methods and plain functions) is called exactly "
        "once per trigger, in subscription order, with the trigger's arguments; a collected receiver is never called and never "
        "makes a dispatch fail, now or at the next switch; disabled and unknown events call nothing",
        "DISPATCH", floor=6,
    )
    cal = repo.cls(EV, "Callables")
    mod = repo.module(EV)
    for m in cal.methods.values():
        ctx.touch(m)

    def scenario():
        alive, log, hooks = {}, [], {}

        refs = {}

        def ref(a, k):
            # weakref.ref(x): ONE reference object per live referent (CPython hands the same basic reference back, and references
            # to the same live referent compare and hash equal)
            t = a[0]
            if id(t) not in refs:
                refs[id(t)] = PyFunc(lambda a2, k2: t if alive.get(id(t), True) else None, "weakref")
            return refs[id(t)]

        def rec(name, bound):
            def f(a, k):
                if bound and not (a and isinstance(a[0], Obj)):
                    log.append((name, "<no receiver>"))
                    return None
                recv = a[0] if bound else None
                if recv is not None and not alive.get(id(recv), True):
                    log.append((name, "<collected receiver>"))
                    return None
                log.append((name, recv.name if recv is not None else None, tuple(str(x) for x in (a[1:] if bound else a)), tuple(sorted((kk, str(v)) for kk, v in k.items()))))
                if name in hooks:
                    hooks[name]()
                return None
            return PyFunc(f, name)

        shared_funcs = {}

        def method(name, recv, same_function=False):
            # same_function: two objects of ONE class -- their bound methods share the underlying function object
            fobj = shared_funcs.setdefault(name, rec(name, True)) if same_function else rec(name, True)
            return Obj(f"bound method {name}", {"__func__": fobj, "__self__": recv, "__call__": PyFunc(lambda a, k: fobj.f([recv] + list(a), k), name)}, closed=True)

        def weak_method(a, k):
            bm = a[0]
            if not (isinstance(bm, Obj) and "__self__" in bm.attrs):
                raise RaisedInFragment("TypeError")
            return PyFunc(lambda a2, k2: bm if alive.get(id(bm.attrs["__self__"]), True) else None, "WeakMethod")

        def function(name):
            return Obj(f"function {name}", {"__call__": rec(name, False)}, closed=True)

        w = World({"ref": ref, "WeakMethod": weak_method, "cast": lambda a, k: a[1], "wraps": lambda a, k: PyFunc(lambda a2, k2: a2[0], "wraps")},
                  module_env={"__events": {}, "__disabled_events": set(), "weakref": Obj("weakref"), "noop": PyFunc(lambda a, k: None, "noop")})
        for st in mod.tree.body:  # other module-level names (type variables, __all__ ...) are opaque objects
            for t in (st.targets if isinstance(st, ast.Assign) else [st.target] if isinstance(st, ast.AnnAssign) else []):
                if isinstance(t, ast.Name) and t.id not in w.module_env:
                    w.module_env[t.id] = Obj(t.id)
        w.add_class(cal)
        for q, f in mod.funcs.items():
            if "." not in q and q != "noop":
                w.add_func(f)
        return w, alive, log, hooks, method, function

    def entry(name, recv, args=("x",), kw=(("key", "y"),)):
        return (name, recv, tuple(args), tuple(kw))

    X, Y = Poly.atom("x"), Poly.atom("y")
    errs = (Undecided, KeyError, TypeError, ValueError, IndexError, AttributeError)

    def judge(label, got, want, where):
        if got == want:
            ctx.holds(r6, f"{EV}::{label}", f"{len(want)} call(s): " + ", ".join(str(g[0]) for g in want))
        else:
            ctx.violated(r6, where, label, "the subscribers called by the dispatch are not exactly the live ones, once each, in subscription order, with the trigger's arguments",
                         expected=str([(g[0], g[1]) for g in want]), found=str([(g[0], g[1]) for g in got])[:300])

    call_m = cal.methods.get("__call__") or cal
    # ---- history 1: a receiver is collected before the dispatch; then another one; three dispatches
    try:
        w, alive, log, hooks, method, function = scenario()
        Ar, Br, Cr = Obj("A"), Obj("B"), Obj("C")
        cb = w.new(cal, [], {})
        for c in (method("mA", Ar), function("f"), method("mB", Br), method("mC", Cr)):
            w.call_method(cb, "append", [c])
        w.call_instance(cb, [X], {"key": Y})
        judge("Callables: 4 subscribers, all alive", list(log), [entry("mA", "A"), entry("f", None), entry("mB", "B"), entry("mC", "C")], call_m)
        del log[:]
        alive[id(Br)] = False
        w.call_instance(cb, [X], {"key": Y})
        judge("Callables: third subscriber collected before the dispatch", list(log), [entry("mA", "A"), entry("f", None), entry("mC", "C")], call_m)
        del log[:]
        alive[id(Ar)] = False
        w.call_instance(cb, [X], {"key": Y})
        judge("Callables: first subscriber collected after an earlier dispatch", list(log), [entry("f", None), entry("mC", "C")], call_m)
    except RaisedInFragment as e:
        ctx.violated(r6, call_m, "Callables dispatch after a receiver was collected", f"the dispatch raises {e.exc_name}: a collected model breaks the next backend switch", expected="live subscribers called, dead ones skipped")
    except errs as e:
        ctx.unrecognised(r6, cal, "Callables history 1", f"not interpretable: {type(e).__name__}: {e}")
    # ---- history 1b: two objects of ONE class subscribe the same method (the same function object); one of them is collected
    try:
        w, alive, log, hooks, method, function = scenario()
        M1, M2, M3 = Obj("model1"), Obj("model2"), Obj("model3")
        cb = w.new(cal, [], {})
        for c in (method("_precompute", M1, True), method("_precompute", M2, True), method("_precompute", M3, True)):
            w.call_method(cb, "append", [c])
        w.call_instance(cb, [X], {"key": Y})
        judge("Callables: three objects of one class, all alive", list(log), [entry("_precompute", "model1"), entry("_precompute", "model2"), entry("_precompute", "model3")], call_m)
        alive[id(M2)] = False
        for rnd in ("first", "second"):
            del log[:]
            w.call_instance(cb, [X], {"key": Y})
            judge(f"Callables: three objects of one class, the second collected ({rnd} dispatch afterwards)", list(log), [entry("_precompute", "model1"), entry("_precompute", "model3")], call_m)
    except RaisedInFragment as e:
        ctx.violated(r6, call_m, "Callables dispatch, objects of one class", f"the dispatch raises {e.exc_name}", expected="the live objects refreshed")
    except errs as e:
        ctx.unrecognised(r6, cal, "Callables history 1b", f"not interpretable: {type(e).__name__}: {e}")
    # ---- history 2: an EARLIER callback of the same dispatch makes a later receiver go away
    try:
        w, alive, log, hooks, method, function = scenario()
        Ar, Br, Cr = Obj("A"), Obj("B"), Obj("C")
        cb = w.new(cal, [], {})
        for c in (method("mA", Ar), method("mB", Br), function("f"), method("mC", Cr)):
            w.call_method(cb, "append", [c])
        hooks["mA"] = lambda: alive.__setitem__(id(Cr), False)
        w.call_instance(cb, [X], {"key": Y})
        judge("Callables: the first callback drops the last reference to the fourth subscriber", list(log), [entry("mA", "A"), entry("mB", "B"), entry("f", None)], call_m)
        del log[:]
        hooks.clear()
        w.call_instance(cb, [X], {"key": Y})
        judge("Callables: the dispatch after that", list(log), [entry("mA", "A"), entry("mB", "B"), entry("f", None)], call_m)
    except RaisedInFragment as e:
        ctx.violated(r6, call_m, "Callables dispatch while a receiver is collected by an earlier callback", f"the dispatch raises {e.exc_name}", expected="the collected subscriber is skipped")
    except errs as e:
        ctx.unrecognised(r6, cal, "Callables history 2", f"not interpretable: {type(e).__name__}: {e}")
    # ---- history 3: module level subscribe / trigger / disable / enable
    sub_f, trg_f = mod.funcs.get("subscribe"), mod.funcs.get("trigger")
    if sub_f is None or trg_f is None:
        ctx.unrecognised(r6, mod, "events", "subscribe/trigger not found")
        return
    ctx.touch(sub_f)
    ctx.touch(trg_f)
    try:
        w, alive, log, hooks, method, function = scenario()
        Ar, Br = Obj("A"), Obj("B")

        def subscribe(ev, c):
            deco = w.call_func(sub_f, [ev])
            if isinstance(deco, PyFunc):
                return deco.f([c], {})
            return deco.interp.call_function(deco.node, [c], {})

        def trigger(ev, *args):
            t = w.call_func(trg_f, [ev])
            if isinstance(t, PyFunc):
                return t.f(list(args), {})
            return w.call_instance(t, list(args), {})

        subscribe("tensorlib_changed", method("mA", Ar))
        subscribe("other", function("g"))
        subscribe("tensorlib_changed", method("mB", Br))
        subscribe("tensorlib_changed", function("f"))
        trigger("tensorlib_changed", X)
        judge("subscribe x4 (two events), trigger one event", list(log), [entry("mA", "A", ("x",), ()), entry("mB", "B", ("x",), ()), entry("f", None, ("x",), ())], trg_f)
        del log[:]
        trigger("never_subscribed", X)
        judge("trigger of an event nobody subscribed to", list(log), [], trg_f)
        if "disable" in mod.funcs and "enable" in mod.funcs:
            w.call_func(mod.funcs["disable"], ["tensorlib_changed"])
            trigger("tensorlib_changed", X)
            judge("trigger of a disabled event", list(log), [], trg_f)
            w.call_func(mod.funcs["enable"], ["tensorlib_changed"])
            alive[id(Ar)] = False
            trigger("tensorlib_changed", X)
            judge("trigger after enable, first subscriber collected meanwhile", list(log), [entry("mB", "B", ("x",), ()), entry("f", None, ("x",), ())], trg_f)
    except RaisedInFragment as e:
        ctx.violated(r6, trg_f, "subscribe/trigger history", f"raises {e.exc_name}", expected="live subscribers of that event called in order")
    except errs as e:
        ctx.unrecognised(r6, mod, "events history 3", f"not interpretable: {type(e).__name__}: {e}")


BACKEND_CLASSES = {"numpy": ("src/pyhf/tensor/numpy_backend.py", "numpy_backend"), "jax": ("src/pyhf/tensor/jax_backend.py", "jax_backend"),
                   "pytorch": ("src/pyhf/tensor/pytorch_backend.py", "pytorch_backend"), "tensorflow": ("src/pyhf/tensor/tensorflow_backend.py", "tensorflow_backend")}
# process-global modes a backend's _setup may switch, and whether tensors created with an EXPLICIT dtype depend on them
# (jax silently truncates float64 requests while x64 is off; torch's default dtype only matters without a dtype)
MODES_AFFECTING_EXPLICIT_DTYPE = {"jax_enable_x64"}


def _r8_jit_arguments(ctx):
    """optimize.common.shim composed with the jax wrap_objective by interpretation, the jitted entry points as recorders."""
    from ..alg import Closure, Obj, Poly, PyFunc, RaisedInFragment, Undecided
    from . import viewers
    repo = ctx.repo
    r8 = ctx.rule(
        "C11.R8",
        "JIT-ARGUMENTS (interpreted): the compiled jax objective is remembered per static arguments AND per type of its traced "
        "arguments; parameters arrive from the optimiser as float64 numpy arrays under either precision, so the observed data "
        "are what makes a compiled objective of another precision unusable after a precision switch: shim composed with the jax "
        "wrap_objective hands the jitted function the caller's data converted to a tensor of the backend current at that time "
        "(astensor in shim or in the wrapper), with and without gradients",
        "HISTORY", floor=2,
    )
    OPT = "src/pyhf/optimize/"
    errs = (Undecided, KeyError, TypeError, ValueError, IndexError, AttributeError)
    if not repo.has_func(OPT + "opt_jax.py", "wrap_objective"):
        ctx.unrecognised(r8, repo.module(OPT + "common.py"), "opt_jax.wrap_objective", "not found")
        return
    shim, mk, wrap = repo.func(OPT + "common.py", "shim"), repo.func(OPT + "common.py", "_make_stitch_pars"), repo.func(OPT + "opt_jax.py", "wrap_objective")
    for f_ in (shim, wrap):
        ctx.touch(f_)
    for do_grad in (True, False):
        site = f"{OPT}common.py::shim o {OPT}opt_jax.py::wrap_objective [do_grad={do_grad}]"
        try:
            seen = []

            def jitted(a, k):
                seen.append(a[1] if len(a) > 1 else k.get("data"))
                return (Poly.atom("V"), Obj("GRAD")) if do_grad else Poly.atom("V")

            def astensor(a, k):
                x = a[0]
                if isinstance(x, Obj) and x.name == "TENSOR_OF_THE_CURRENT_BACKEND":
                    return x
                if isinstance(x, Obj) and x.name == "caller's data":
                    return Obj("TENSOR_OF_THE_CURRENT_BACKEND", {"of": x}, closed=True)
                return list(x) if isinstance(x, (list, tuple)) else x

            w = viewers.world(repo, {"astensor": astensor, "_jitted_objective_and_grad": jitted, "_jitted_objective": jitted, "debug": lambda a, k: None})
            w.module_env["log"] = Obj("log")
            w.add_func(mk).add_func(shim)
            w.base["_get_tensor_shim"] = lambda a, k: PyFunc(lambda a2, k2: w.call_func(wrap, a2, k2), "wrap_objective")
            data = Obj("caller's data", closed=True)
            pdf_ = Obj("pdf", {"config": Obj("config", {"npars": Poly.const(3)})})
            kw, _ = w.call_func(shim, [Obj("objective"), data, pdf_, [Poly.atom(f"i{j}") for j in range(3)], [Poly.atom(f"b{j}") for j in range(3)]], {"fixed_vals": [(Poly.const(1), Poly.atom("v1"))], "do_grad": do_grad, "do_stitch": False})
            fn_ = kw.get("func")
            pars = Obj("float64 array from the optimiser")
            if isinstance(fn_, Closure):
                (fn_.interp if getattr(fn_, "interp", None) is not None else w)._call_closure(fn_, [pars], {})
            elif isinstance(fn_, PyFunc):
                fn_.f([pars], {})
            else:
                raise Undecided("shim does not return a function under `func`")
            if not seen:
                raise Undecided("the jitted entry point was not reached")
            d_ = seen[-1]
            if isinstance(d_, Obj) and d_.name == "TENSOR_OF_THE_CURRENT_BACKEND":
                ctx.holds(r8, site, "the jitted objective receives astensor(data)")
            else:
                ctx.violated(r8, shim, f"data argument of the jitted objective [do_grad={do_grad}]", "the compiled jax objective is called with the caller's data as given (e.g. a python list): its traced arguments then look the same under 64b and 32b, so after a precision switch a model fitted before keeps running the objective compiled -- tensorlib and constants baked in -- for the OLD precision, while a fresh model does not", expected="astensor(data) of the current backend", found=getattr(d_, "name", type(d_).__name__), node=shim.node)
        except RaisedInFragment as e:
            ctx.violated(r8, shim, f"shim o wrap_objective [do_grad={do_grad}]", f"raises {e.exc_name} on valid inputs", node=shim.node)
        except errs as e:
            ctx.unrecognised(r8, shim, f"shim o wrap_objective [do_grad={do_grad}]", f"not interpretable: {type(e).__name__}: {e}")


def _r7_switch_histories(ctx, rid=None):
    """set_backend interpreted over a model of the manager state, the retrievers and the event system, for histories of
    switches; every backend's own _setup is interpreted when set_backend calls it."""
    from ..alg import NotHandled, Obj, Poly, PyFunc, RaisedInFragment, Undecided
    from ..objmodel import World
    repo = ctx.repo
    r7 = rid or ctx.rule(
        "C11.R7",
        "SWITCH-HISTORY (interpreted): set_backend walked for histories of switches (name changes, precision-only changes in both "
        "directions, no change, a backend object plus a precision keyword, default=True) over a model of the manager state: after "
        "each call the current backend is the requested one at the requested precision; 'tensorlib_changed' fires exactly when name "
        "or precision differ from the backend that was current BEFORE the call, after the state was replaced; and no process-wide "
        "mode that explicit-dtype tensor creation depends on (jax x64) is switched by the backend's _setup after the refresh ran",
        "HISTORY", floor=8,
    )
    sb = repo.func(MAN, "set_backend")
    ctx.touch(sb)
    errs = (Undecided, KeyError, TypeError, ValueError, IndexError, AttributeError)

    def mk(name, precision):
        # `dtypemap` stands for everything the constructor derives from the precision it is GIVEN (dtype tables, defaults): it is
        # fixed at construction, whatever is later written into the object's `precision` attribute
        return Obj("backend", {"name": name, "precision": precision, "dtypemap": f"dtypes chosen for {precision}", "__class__": f"{name}_backend"}, closed=True)

    modes = {}
    for rel_, _cn in BACKEND_CLASSES.values():  # what importing the backend modules has already switched (jax: x64 on)
        for st_ in repo.module(rel_).tree.body:
            if isinstance(st_, ast.Expr) and isinstance(st_.value, ast.Call) and A.call_attr(st_.value) == "update" and len(st_.value.args) == 2 and isinstance(A.const_value(st_.value.args[0]), str):
                modes[A.const_value(st_.value.args[0])] = A.const_value(st_.value.args[1])
    events_log = []
    this = Obj("this", {"state": {}}, closed=True)

    def mode_externals():
        def cfg_update(a2, k2):
            if a2 and isinstance(a2[0], str):
                modes[a2[0]] = a2[1] if len(a2) > 1 else None
                return None
            raise NotHandled()
        return {"__strict__": False, "update": cfg_update, "set_default_dtype": lambda a2, k2: modes.__setitem__("torch_default_dtype", str(getattr(a2[0], "name", a2[0]))),
                "set_floatx": lambda a2, k2: modes.__setitem__("tf_floatx", a2[0]),
                **{nm_: (lambda a2, k2, nm_=nm_: modes.__setitem__(nm_, a2[0] if a2 else None)) for nm_ in ("set_flush_denormal", "set_float32_matmul_precision", "enable_tensor_float_32_execution")}}

    def backend_ctor(name):
        def f(a, k):
            unknown = set(k) - {"precision"}
            if unknown or a:
                raise RaisedInFragment("TypeError")
            obj = mk(name, k.get("precision", "64b"))
            # the class's own constructor, for what it does to process-wide modes (merely CONSTRUCTING a backend object is
            # something user code and pyhf itself do without activating it)
            rel_, cname_ = BACKEND_CLASSES[name]
            init = repo.cls(rel_, cname_).methods.get("__init__")
            if init is not None:
                ctx.touch(init)
                from ..alg import Interp
                try:
                    Interp({"kwargs": dict(k), "torch": Obj("torch"), "config": Obj("config"), "tf": Obj("tf"), "np": Obj("np"), "jnp": Obj("jnp")}, {}, {}, cls_name=cname_, externals=mode_externals()).run(A.strip_docstring(init.node.body))
                except Undecided as e:
                    if any(A.call_attr(c_) in ("update", "set_default_dtype", "set_floatx", "set_flush_denormal") for c_ in A.calls_in(init.node)):
                        raise Undecided(f"{cname_}.__init__ switches a process-wide mode in a way that is not interpretable: {e}")
            return obj
        return PyFunc(f, f"{name}_backend")

    def opt_ctor(name):
        return PyFunc(lambda a, k: Obj("optimizer", {"name": name, "conf": dict(k)}, closed=True), f"{name}_optimizer")

    def setup(recv, a, k):
        if not (isinstance(recv, Obj) and recv.name == "backend"):
            raise NotHandled()
        rel, cname = BACKEND_CLASSES[recv.attrs["name"]]
        m = repo.cls(rel, cname).methods.get("_setup")
        if m is None:
            return None
        ctx.touch(m)

        def cfg_update(a2, k2):
            if a2 and isinstance(a2[0], str):
                modes[a2[0]] = a2[1] if len(a2) > 1 else None
                return None
            raise NotHandled()

        def set_default_dtype(a2, k2):
            modes["torch_default_dtype"] = str(getattr(a2[0], "name", a2[0]))
            return None

        from ..alg import Interp
        dmap = {"float": Obj(f"float{recv.attrs['precision'][:2]}"), "int": Obj(f"int{recv.attrs['precision'][:2]}"), "bool": Obj("bool")}
        it = Interp({"self": recv, "torch": Obj("torch"), "config": Obj("config"), "tf": Obj("tf"), "np": Obj("np")}, {"precision": recv.attrs["precision"], "name": recv.attrs["name"], "dtypemap": dmap}, {},
                    cls_name=cname, externals={"__strict__": True, "update": cfg_update, "set_default_dtype": set_default_dtype, "set_floatx": lambda a2, k2: modes.__setitem__("tf_floatx", a2[0]),
                                                  **{nm_: (lambda a2, k2, nm_=nm_: modes.__setitem__(nm_, a2[0] if a2 else None)) for nm_ in ("set_flush_denormal", "set_float32_matmul_precision", "enable_tensor_float_32_execution", "set_num_threads", "manual_seed")}})
        it.run(A.strip_docstring(m.node.body))
        return None

    def trigger(a, k):
        ev = a[0]

        def fire(a2, k2):
            cur = this.attrs["state"].get("current")
            events_log.append((ev, (cur[0].attrs["name"], cur[0].attrs["precision"]) if cur else None, dict(modes)))
        return PyFunc(fire, f"trigger[{ev}]")

    def isinst(o, cls_):
        if isinstance(o, Obj) and o.name == "backend" and isinstance(cls_, PyFunc):
            return cls_.name == o.attrs["__class__"]
        if isinstance(o, Obj) and o.name == "optimizer" and isinstance(cls_, PyFunc):
            return cls_.name == f"{o.attrs['name']}_optimizer"
        if isinstance(cls_, PyFunc) or isinstance(cls_, Obj):
            return False
        raise NotHandled()

    try:
        br = Obj("BackendRetriever", {f"{n}_backend": backend_ctor(n) for n in BACKEND_CLASSES}, closed=True)
        orr = Obj("OptimizerRetriever", {"scipy_optimizer": opt_ctor("scipy"), "minuit_optimizer": opt_ctor("minuit")}, closed=True)
        w = World({"__strict__": True, "._setup": setup, "trigger": trigger, "__isinstance__": isinst}, module_env={"this": this, "BackendRetriever": br, "OptimizerRetriever": orr, "events": Obj("events"), "exceptions": Obj("exceptions"), "log": Obj("log")})
        w.add_func(sb)
        first = mk("numpy", "64b")
        this.attrs["state"]["default"] = (first, Obj("optimizer", {"name": "scipy", "conf": {}}, closed=True))
        this.attrs["state"]["current"] = this.attrs["state"]["default"]
    except errs as e:
        ctx.unrecognised(r7, sb, "set_backend", f"world not buildable: {type(e).__name__}: {e}")
        return
    history = [
        ("jax", {}, ("jax", "64b")), ("jax", {"precision": "32b"}, ("jax", "32b")), ("jax", {"precision": "64b"}, ("jax", "64b")), ("jax", {}, ("jax", "64b")),
        ("pytorch", {"precision": "32b"}, ("pytorch", "32b")), ("pytorch", {"precision": "64b"}, ("pytorch", "64b")), ("numpy", {"default": True}, ("numpy", "64b")),
        ("OBJECT:pytorch:64b", {"precision": "32b"}, ("pytorch", "32b")), ("OBJECT:pytorch:64b", {}, ("pytorch", "64b")),
        ("OBJECT:pytorch:64b", {"precision": "32b"}, ("pytorch", "32b")),  # same name, the OBJECT says 64b, the keyword wins: a precision-only change
        ("tensorflow", {"precision": "32b"}, ("tensorflow", "32b")),
        ("tensorflow", {"precision": "64b"}, ("tensorflow", "64b")), ("numpy", {"precision": "32b"}, ("numpy", "32b")), ("numpy", {}, ("numpy", "64b")),
        ("jax", {}, ("jax", "64b")), ("CONSTRUCT:jax:32b", {}, ("jax", "64b")), ("pytorch", {}, ("pytorch", "64b")), ("CONSTRUCT:pytorch:32b", {}, ("pytorch", "64b")),
        # the precision spelled in upper case (accepted: the name is matched case-insensitively) means the same width, and is what
        # the backend object is built with and reports
        ("numpy", {"precision": "32B"}, ("numpy", "32b")), ("numpy", {"precision": "64B"}, ("numpy", "64b")), ("JAX", {"precision": "64B"}, ("jax", "64b")),
    ]
    for step, (arg, kw, want) in enumerate(history):
        before = this.attrs["state"]["current"][0]
        prev = (before.attrs["name"], before.attrs["precision"])
        label = f"step {step + 1}: set_backend({arg.split(':')[1] + ' backend object (' + arg.split(':')[2] + ')' if arg.startswith('OBJECT') else repr(arg)}{''.join(', %s=%r' % kv for kv in kw.items())}) after {prev[0]} {prev[1]}"
        del events_log[:]
        if arg.startswith("CONSTRUCT"):
            label = f"step {step + 1}: a {arg.split(':')[1]} backend object with precision {arg.split(':')[2]} is constructed and NOT activated while {prev[0]} {prev[1]} is current"
        a0 = mk(*arg.split(":")[1:]) if arg.startswith("OBJECT") else arg
        try:
            if arg.startswith("CONSTRUCT"):
                br.attrs[f"{arg.split(':')[1]}_backend"].f([], {"precision": arg.split(":")[2]})
            else:
                w.call_func(sb, [a0], dict(kw))
        except RaisedInFragment as e:
            ctx.violated(r7, sb, label, f"a valid switch raises {e.exc_name}", expected=f"current backend {want}")
            continue
        except errs as e:
            ctx.unrecognised(r7, sb, label, f"not interpretable: {type(e).__name__}: {e}")
            return
        cur = this.attrs["state"]["current"][0]
        got = (cur.attrs.get("name"), cur.attrs.get("precision")) if isinstance(cur, Obj) else None
        fired = [e_ for e_ in events_log if e_[0] == "tensorlib_changed"]
        should = prev != want
        final_modes = dict(modes)
        # what the CURRENT backend's own setup establishes (run once more on top: a no-op when it already ran last)
        try:
            br.attrs[f"{cur.attrs['name']}_backend"].f([], {"precision": cur.attrs["precision"]})  # what constructing ...
            setup(cur, [], {})  # ... and setting up the backend now in force establishes
        except errs as e:
            ctx.unrecognised(r7, sb, label, f"_setup not interpretable: {type(e).__name__}: {e}")
            return
        own_modes = dict(modes)
        if got != want:
            ctx.violated(r7, sb, label, f"the current backend after the call is {got}", expected=str(want), found=str(got))
        elif cur.attrs.get("dtypemap") != f"dtypes chosen for {want[1]}":
            ctx.violated(r7, sb, label, f"the current backend reports precision {want[1]} but was CONSTRUCTED for another one ({cur.attrs.get('dtypemap')}): the precision attribute of an existing backend object was overwritten instead of building a backend of the requested width, so every tensor it creates has the old width", expected=f"a backend built with precision {want[1]}", found=str(cur.attrs.get("dtypemap")))
        elif own_modes != final_modes:
            diff = sorted(k_ for k_ in own_modes if own_modes.get(k_) != final_modes.get(k_))
            ctx.violated(r7, sb, label, f"afterwards the process-wide setup `{diff[0]}` is {final_modes.get(diff[0])}, the backend in force sets it to {own_modes.get(diff[0])}: the library-global setup was made for ANOTHER backend object (one re-created by the precision keyword, or one that was only constructed) or not at all -- the current backend computes at another width than it is configured for", expected=str({k_: own_modes[k_] for k_ in diff}), found=str({k_: final_modes.get(k_) for k_ in diff}))
        elif should and not fired:
            ctx.violated(r7, sb, label, f"the backend changed from {prev} to {want} and 'tensorlib_changed' is not triggered: every model, interpolator and viewer alive keeps tensors of the previous backend / precision", expected="one trigger", found="none")
        elif not should and fired:
            ctx.violated(r7, sb, label, "nothing changed and 'tensorlib_changed' is triggered", expected="no trigger", found=f"{len(fired)}")
        elif fired and fired[0][1] != want:
            ctx.violated(r7, sb, label, f"'tensorlib_changed' fires while the manager still reports {fired[0][1]} as current: the refresh callbacks recompute against the OLD backend", expected=str(want), found=str(fired[0][1]))
        elif fired and any(fired[0][2].get(m_) != final_modes.get(m_) for m_ in MODES_AFFECTING_EXPLICIT_DTYPE if m_ in final_modes):
            m_ = next(m_ for m_ in MODES_AFFECTING_EXPLICIT_DTYPE if m_ in final_modes and fired[0][2].get(m_) != final_modes.get(m_))
            ctx.violated(r7, sb, label, f"the refresh callbacks of 'tensorlib_changed' run while the process-wide mode `{m_}` is still {fired[0][2].get(m_)}; the new backend's _setup switches it to {final_modes.get(m_)} only afterwards, so every surviving object is refreshed with tensors of the wrong width", expected="mode switched before the refresh (or not at all)", found="switched after")
        else:
            ctx.holds(r7, f"{MAN}::{label}", f"current {want}; trigger {'fired after the swap' if fired else 'not fired'}")

    # ---- the optimiser half of the state: after every call the optimiser in force is the one THIS call asked for
    OPTM = "src/pyhf/optimize/"
    try:
        from ..objmodel import World as _World
        ow = _World({"__strict__": True}, module_env={"exceptions": Obj("exceptions"), "log": Obj("log"), "NotImplemented": Obj("NotImplemented"), "object": Obj("object")})
        oclasses = {"scipy": repo.cls(OPTM + "opt_scipy.py", "scipy_optimizer"), "minuit": repo.cls(OPTM + "opt_minuit.py", "minuit_optimizer")}
        ow.add_class(repo.cls(OPTM + "mixins.py", "OptimizerMixin"))
        for c_ in oclasses.values():
            ow.add_class(c_)
        ow.base["__isinstance__"] = lambda v, cl: getattr(getattr(v, "cls", None), "name", None) == getattr(cl, "name", None)

        def opt_equal(a, b):
            """== between two optimiser stand-ins, decided by the REAL classes: identity unless they define __eq__, in which
            case both are built through their real constructors from their settings and the real __eq__ is interpreted"""
            if not (isinstance(a, Obj) and isinstance(b, Obj) and a.name == "optimizer" and b.name == "optimizer"):
                raise NotHandled()
            ca, cb = oclasses.get(a.attrs["name"]), oclasses.get(b.attrs["name"])
            if ca is None or cb is None or "__eq__" not in ow.methods_of(ca):
                return a is b
            ia, ib = ow.new(ca, [], dict(a.attrs["conf"])), ow.new(cb, [], dict(b.attrs["conf"]))
            if ca is not cb:
                ow.base["type"] = None
            return ow.equal(ia, ib)

        w.base["__eq__"] = opt_equal
        w.ext = None
        T1, T2 = Poly.atom("TOL1"), Poly.atom("TOL2")
        custom_a = Obj("optimizer", {"name": "scipy", "conf": {"tolerance": T1}}, closed=True)
        custom_b = Obj("optimizer", {"name": "scipy", "conf": {"tolerance": T2}}, closed=True)
        custom_m = Obj("optimizer", {"name": "minuit", "conf": {"strategy": Poly.const(2)}}, closed=True)
        custom_n = Obj("optimizer", {"name": "minuit", "conf": {"strategy": Poly.const(0)}}, closed=True)
        osteps = [
            ("an optimizer object with tolerance=TOL1", {"custom_optimizer": custom_a}, ("scipy", {"tolerance": "TOL1"})),
            ("ANOTHER optimizer object of the same class with tolerance=TOL2", {"custom_optimizer": custom_b}, ("scipy", {"tolerance": "TOL2"})),
            ("no optimizer named (the default one)", {}, ("scipy", {})),
            ("a minuit optimizer object with strategy=2", {"custom_optimizer": custom_m}, ("minuit", {"strategy": "2"})),
            ("another minuit optimizer object with strategy=0", {"custom_optimizer": custom_n}, ("minuit", {"strategy": "0"})),
            ("the optimizer named 'minuit'", {"custom_optimizer": "minuit"}, ("minuit", {})),
            ("the optimizer named 'scipy'", {"custom_optimizer": "scipy"}, ("scipy", {})),
        ]
        for lab, kw, (wname, wconf) in osteps:
            label = f"optimizer step: set_backend('numpy', {lab})"
            w.call_func(sb, ["numpy"], dict(kw))
            cur_o = this.attrs["state"]["current"][1]
            gname = cur_o.attrs.get("name") if isinstance(cur_o, Obj) else None
            gconf = {k_: str(v_) if not isinstance(v_, (dict, list)) else v_ for k_, v_ in (cur_o.attrs.get("conf") or {}).items()} if isinstance(cur_o, Obj) else None
            passed = kw.get("custom_optimizer")
            if (gname, gconf) != (wname, wconf) or (isinstance(passed, Obj) and cur_o is not passed):
                ctx.violated(r7, sb, label, "after the call the optimiser in force is not the one this call asked for (an optimiser that compares equal to the previous one -- same class, same compared settings -- is dropped in favour of the previous object, together with the settings that were not compared)", expected=f"{wname} optimizer with settings {wconf}", found=f"{gname} optimizer with settings {gconf}")
            else:
                ctx.holds(r7, f"{MAN}::{label}", f"optimizer in force: {gname} {gconf}")
    except RaisedInFragment as e:
        ctx.violated(r7, sb, "optimizer steps", f"a valid switch of the optimiser raises {e.exc_name}")
    except errs as e:
        ctx.unrecognised(r7, sb, "optimizer steps", f"not interpretable: {type(e).__name__}: {e}")
