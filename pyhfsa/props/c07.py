"""C07 -- asymptotic p-values follow the formulae of arXiv:1007.1727.

  R1 ALG   composition teststatistic -> distributions -> pvalue: the argument of the
           s+b tail is -sqrt(q) and of the b tail -(sqrt(q)-sqrt(qA)) for q, q0 and
           qtilde (q <= qA); -(q+qA)/(2 sqrt(qA)) and -(q-qA)/(2 sqrt(qA)) for qtilde
           (q > qA); both branches agree at q = qA; CLs = CLsb / CLb
  R2 CMP   the branch predicate compares sqrt(q) with sqrt(qA); true side = sqrt form
  R3 STAB  p-values are cdf(-x), never 1 - cdf(x)
  R4 DEP   clipped_normal: cutoff = -sqrt(qA) on BOTH distributions, normal: -inf,
           anything else raises; expected_value = where(shift+N > cutoff, shift+N, cutoff);
           pvalue is NaN below the cutoff
  R5 TABLE the band is evaluated at N = [2, 1, 0, -1, -2] on the background-only distribution
  R6 ORDER distributions refuses to run before teststatistic
"""

from __future__ import annotations

import ast
from fractions import Fraction

from .. import astutil as A
from ..alg import AutoRegion, Interp, Obj, Poly, PyFunc, Undecided, fn, to_poly, _ATOMS

EXPLANATION = (
    "AsymptoticCalculator.teststatistic, .distributions, .pvalues and AsymptoticTestStatDistribution.pvalue/"
    "expected_value are abstractly interpreted with the two test-statistic evaluations replaced by opaque atoms Q "
    "and QA (sqrt<Q>, sqrt<QA> with sqrt(x)^2 = x): for the three statistics x two branches the argument handed to "
    "normal_cdf is extracted and compared, as an exact rational-function identity, with the published one; the seam "
    "q = qA is checked by substitution; the clipped cutoff, NaN masking, band order, complement lint and call order "
    "are structural. NOT decided: numeric inequalities (0 <= CLsb <= CLb <= 1), underflow boundary, accuracy of Phi."
)
ASSUMPTIONS = [
    "tensorlib.normal_cdf is the standard normal CDF (C04)",
    "tensorlib.conditional(pred, f, g) calls f() if pred else g()",
]
CALC = "src/pyhf/infer/calculators.py"
NEG = Fraction(-10 ** 9)


def run(ctx):
    repo = ctx.repo
    calc = repo.cls(CALC, "AsymptoticCalculator")
    dist = repo.cls(CALC, "AsymptoticTestStatDistribution")
    for c in (calc, dist):
        for m in c.methods.values():
            ctx.touch(m)
    r1 = ctx.rule("C07.R1", "ALG: tail arguments of CLsb / CLb for q, q0, qtilde(true branch) are -sqrt(q), -(sqrt(q)-sqrt(qA)); for qtilde(false branch) -(q+qA)/(2 sqrt(qA)), -(q-qA)/(2 sqrt(qA)); branches agree at q=qA; CLs = CLsb/CLb", "ALG", floor=12)
    r2 = ctx.rule("C07.R2", "CMP: the qtilde branch predicate compares sqrt(q) with sqrt(qA) and its true side is the square-root form", "CMP", floor=2)
    r3 = ctx.rule("C07.R3", "STAB: no `1 - cdf(...)` / `1 - normal_cdf(...)` on the p-value path of infer/calculators.py", "STAB", floor=1)
    r4 = ctx.rule("C07.R4", "DEP: clipped_normal sets cutoff = -sqrt(qA) for both distributions, normal -inf, other values raise; expected_value clips at the cutoff; pvalue is NaN below the cutoff", "DEP", floor=6)
    r5 = ctx.rule("C07.R5", "BAND (interpreted): expected_pvalues on real AsymptoticTestStatDistribution objects (normal and clipped base, sqrt(qA) above and below 1 and 2) returns [[CLsb], [CLb], [CLs]] with, at position i of N = 2, 1, 0, -1, -2, CLsb = Phi(-(t_N + sqrt qA)), CLb = Phi(-t_N), CLs their ratio, t_N = max(N, cutoff) the background-only expected statistic", "BAND", floor=6)
    r6 = ctx.rule("C07.R6", "ORDER: distributions() raises unless teststatistic() stored sqrt(qA) before", "ORDER", floor=1)

    s, a = fn("sqrt", Poly.atom("Q")), fn("sqrt", Poly.atom("QA"))
    sname, aname = str(s), str(a)
    Q, QA = Poly.atom("Q"), Poly.atom("QA")

    # ---- distribution.pvalue / expected_value as symbolic functions
    pv_m = dist.methods.get("pvalue")
    ev_m = dist.methods.get("expected_value")
    if pv_m is None or ev_m is None:
        ctx.unrecognised(r1, dist, "AsymptoticTestStatDistribution", "pvalue/expected_value missing")
        return

    def pvalue(value, shift, cutoff, region):
        it = Interp({"value": value}, {"shift": shift, "cutoff": cutoff}, region, cls_name=dist.name)
        return to_poly(it.run(A.strip_docstring(pv_m.node.body)))

    # ---- teststatistic per statistic and branch
    ts_m = calc.methods["teststatistic"]

    def teststat(stat_name, region):
        """The calculator is set up by its (interpreted) constructor and has already evaluated the statistic at
        ANOTHER mu: the evaluation at mu_test must not reuse anything of that earlier call."""
        s_o, a_o = fn("sqrt", Poly.atom("Q_other")), fn("sqrt", Poly.atom("QA_other"))

        def tsf(args, kw):
            data = args[1]
            here = str(to_poly(args[0])) == "mu_test"
            if isinstance(data, Obj) and data.name == "ASIMOV":
                return (QA if here else Poly.atom("QA_other"), (Obj("mubhathat_A"), Obj("muhatbhat_A")))
            return (Q if here else Poly.atom("Q_other"), (Obj("mubhathat"), Obj("muhatbhat")))

        ext = {
            "get_test_stat": lambda args, kw: PyFunc(tsf, "teststat_func"),
            "generate_asimov_data": lambda args, kw: (Obj("ASIMOV"), Obj("asimov_pars")),
            "HypoTestFitResults": lambda args, kw: Obj("fitresults"),
        }
        attrs = {}
        ienv = {"data": Obj("data"), "pdf": Obj("pdf"), "init_pars": Obj("init"), "par_bounds": Obj("bounds"), "fixed_params": Obj("fixed"), "test_stat": stat_name, "calc_base_dist": "normal"}
        Interp(ienv, attrs, {}, cls_name=calc.name, externals=ext).run(A.strip_docstring(calc.methods["__init__"].node.body))
        reg2 = type(region)(region, region.sign) if hasattr(region, "sign") else dict(region)
        reg2.update({str(s_o): Fraction(1), str(a_o): Fraction(2)})
        Interp({"poi_test": Poly.atom("mu_other"), "utils": Obj("utils")}, attrs, reg2, cls_name=calc.name, externals=ext).run(A.strip_docstring(ts_m.node.body))
        it = Interp({"poi_test": Poly.atom("mu_test"), "utils": Obj("utils")}, attrs, reg2, cls_name=calc.name, externals=ext)
        v = it.run(A.strip_docstring(ts_m.node.body))
        return to_poly(v), attrs, it.thresholds_seen

    # ---- distributions(): record constructor arguments
    di_m = calc.methods["distributions"]

    def distributions(base):
        """HISTORY: the calculator is constructed (interpreted constructor), has already produced the distributions for
        ANOTHER tested value (another sqrt(qA)), and is asked again: the objects returned now are looked up among all
        objects ever made, so one kept from the earlier call shows with the earlier call's arguments."""
        made = []

        def ctor(args, kw):
            o = Obj(f"dist{len(made) + 1}")
            made.append((args, kw, o))
            return o

        ext = {"AsymptoticTestStatDistribution": ctor, "get_test_stat": lambda args, kw: Obj("teststat_func"), "HypoTestFitResults": lambda args, kw: Obj("fitresults")}
        attrs = {}
        ienv = {"data": Obj("data"), "pdf": Obj("pdf"), "init_pars": Obj("init"), "par_bounds": Obj("bounds"), "fixed_params": Obj("fixed"), "test_stat": "qtilde", "calc_base_dist": base}
        Interp(ienv, attrs, {}, cls_name=calc.name, externals=ext).run(A.strip_docstring(calc.methods["__init__"].node.body))
        a_other = fn("sqrt", Poly.atom("QA_other"))
        reg_ = {aname: Fraction(2), str(a_other): Fraction(3), "NEGINF": NEG}
        attrs["sqrtqmuA_v"] = a_other
        Interp({"poi_test": Poly.atom("mu_other")}, attrs, reg_, cls_name=calc.name, externals=ext).run(A.strip_docstring(di_m.node.body))
        attrs["sqrtqmuA_v"] = a
        out = Interp({"poi_test": Poly.atom("mu_test")}, attrs, reg_, cls_name=calc.name, externals=ext).run(A.strip_docstring(di_m.node.body))
        if not (isinstance(out, (tuple, list)) and len(out) == 2):
            raise Undecided("distributions() does not return a pair")
        mine = []
        for o in out:
            rec_ = next(((ar, kw) for ar, kw, ob in made if ob is o), None)
            if rec_ is None:
                raise Undecided("distributions() returns something that is not a distribution object it constructed")
            mine.append(rec_)
        return mine, [Obj("dist1"), Obj("dist2")]

    try:
        made, out = distributions("normal")
        shifts = [to_poly(m[0][0]) for m in made]
        cut_normal = [to_poly(m[0][1]) if len(m[0]) > 1 else to_poly(m[1].get("cutoff", Poly.atom("NEGINF"))) for m in made]
    except Undecided as e:
        ctx.unrecognised(r1, di_m, "distributions", f"not interpretable: {e}")
        return
    if len(made) != 2 or not (isinstance(out, (tuple, list)) and [getattr(o, "name", None) for o in out] == ["dist1", "dist2"]):
        ctx.unrecognised(r1, di_m, "distributions", "expected two distribution objects returned as (s+b, b)")
        return
    shift_sb, shift_b = shifts
    if shift_sb == -a and shift_b.is_zero():
        ctx.holds(r1, f"{CALC}::AsymptoticCalculator.distributions", "shifts (-sqrt(qA), 0) for (s+b, b)")
    else:
        ctx.violated(r1, di_m, "distributions shifts", "the s+b / b-only distributions are not centred at -sqrt(qA) / 0", expected="(-sqrt<QA>, 0)", found=f"({shift_sb}, {shift_b})")

    # R4 cutoffs
    for base, want in (("normal", Poly.atom("NEGINF")), ("clipped_normal", -a)):
        try:
            made2, _ = distributions(base)
            cuts = [to_poly(m[0][1]) if len(m[0]) > 1 else to_poly(m[1].get("cutoff", Poly.atom("NEGINF"))) for m in made2]
            for nm, c in zip(("s+b", "b-only"), cuts):
                if c == want:
                    ctx.holds(r4, f"{CALC}::distributions[{base}] {nm} cutoff", str(want))
                else:
                    ctx.violated(r4, di_m, f"distributions[{base}] {nm} cutoff", f"base distribution '{base}': the {nm} distribution has cutoff {c}", expected=str(want), found=str(c))
        except Undecided as e:
            ctx.unrecognised(r4, di_m, f"distributions[{base}]", str(e))
    raises_other = any(isinstance(n, ast.Raise) for n in ast.walk(di_m.node) if isinstance(n, ast.Raise) and _exc_name(n) == "ValueError")
    try:
        distributions("something_else")
        ctx.violated(r4, di_m, "distributions[unknown base]", "an unknown base distribution is accepted silently", expected="raise ValueError")
    except Undecided as e:
        if "raise reached" in str(e) and ("ValueError" in str(e) or raises_other):  # raised here or in a helper method the choice was moved into
            ctx.holds(r4, f"{CALC}::distributions[unknown]", "raises")
        else:
            ctx.unrecognised(r4, di_m, "distributions[unknown]", str(e))

    # ---- R1 composition
    class _FitSign(AutoRegion):
        """Everything the code could read off the FITS (best-fit POI, nuisance parameters ...) is an unconstrained
        quantity: it takes a small value of the given sign, so a branch decided by it shows up as a formula that
        changes with the sign while q and qA stay put."""

        def __init__(self, base, sign):
            super().__init__(base)
            self.sign = sign

        def __contains__(self, k):
            return dict.__contains__(self, k) or k not in _ATOMS

        def __missing__(self, k):
            return Fraction(self.sign, 1000)

    # every name get_test_stat accepts, with the KIND of the function it resolves to: the calculator must transform a
    # statistic computed by qmu / q0 with the single form and one computed by qmu_tilde with the two-branch form,
    # whatever the name is spelled like
    kinds = {"qmu": "q", "q0": "q0", "qmu_tilde": "qtilde"}
    stat_names = []
    UT_ = "src/pyhf/infer/utils.py"
    if repo.has_func(UT_, "get_test_stat"):
        gts = repo.func(UT_, "get_test_stat")
        ctx.touch(gts)
        for n_ in repo.walk_with_tables(gts):
            if isinstance(n_, ast.Dict) and n_.keys and all(k_ is not None and isinstance(A.const_value(k_), str) for k_ in n_.keys):
                for k_, v_ in zip(n_.keys, n_.values):
                    target = (A.dotted(v_) or "").split(".")[-1]
                    if target in kinds:
                        stat_names.append((A.const_value(k_), kinds[target]))
                    elif target in ("tmu", "tmu_tilde"):
                        ctx.note(f"get_test_stat offers {A.const_value(k_)!r} -> {target}: a two-sided statistic the asymptotic p-value formulae of this property do not cover")
                    else:
                        ctx.unrecognised(r1, gts, f"get_test_stat[{A.const_value(k_)!r}]", f"resolves to `{A.short(v_, 30)}`, which is not one of qmu / q0 / qmu_tilde")
    for must in (("q", "q"), ("q0", "q0"), ("qtilde", "qtilde")):
        if must not in stat_names:
            stat_names.append(must)
    cases = []
    for stat, kind in stat_names:
        for label, reg in (("sqrtq<sqrtqA", {sname: Fraction(1), aname: Fraction(2)}), ("sqrtq>sqrtqA", {sname: Fraction(3), aname: Fraction(2)})):
            for sign in (1, -1):
                cases.append((stat, kind, label + (", fitted values > 0" if sign > 0 else ", fitted values < 0"), _FitSign(reg, sign)))
    results = {}
    for stat, kind, label, reg in cases:
        site = f"{CALC}::AsymptoticCalculator[{stat}, {label}]"
        try:
            T, attrs, seen = teststat(stat, reg)
        except Undecided as e:
            ctx.unrecognised(r1, ts_m, f"teststatistic[{stat}]", f"not interpretable: {e}")
            continue
        if "_other" in str(T) or "_other" in str(attrs.get("sqrtqmuA_v")):
            ctx.violated(r1, ts_m, f"teststatistic[{stat}] after an evaluation at another mu", "the statistic (or the stored sqrt(qA)) at mu_test is built from values computed in an earlier teststatistic call at a different mu: the Asimov statistic depends on the tested mu and must be recomputed", expected=f"{s} - {a} / quadratic form in Q, QA", found=f"T = {T}; sqrtqmuA_v = {attrs.get('sqrtqmuA_v')}")
            continue
        if to_poly(attrs.get("sqrtqmuA_v")) != a:
            ctx.violated(r1, ts_m, f"teststatistic[{stat}] stores sqrtqmuA_v", "the value stored for the distributions is not sqrt of the Asimov statistic", expected=str(a), found=str(attrs.get("sqrtqmuA_v")))
        results[(stat, label)] = T
        results[(stat, label.split(",")[0])] = T
        false_branch = kind == "qtilde" and label.startswith("sqrtq>sqrtqA")
        want_sb = -(Q + QA) / (2 * a) if false_branch else -s
        want_b = -(Q - QA) / (2 * a) if false_branch else -(s - a)
        region = dict(reg)
        region["NEGINF"] = NEG
        region["Q"], region["QA"] = reg[sname] ** 2, reg[aname] ** 2
        for nm, shift, want in (("CLsb", shift_sb, want_sb), ("CLb", shift_b, want_b)):
            try:
                pv = pvalue(T, shift, Poly.atom("NEGINF"), region)
            except Undecided as e:
                ctx.unrecognised(r1, pv_m, f"pvalue[{stat},{label}]", str(e))
                continue
            arg = _cdf_arg(pv)
            if arg is None:
                ctx.violated(r1, pv_m, f"pvalue form [{stat}, {label}, {nm}]", "p-value is not a single normal_cdf(...) of the shifted statistic", found=str(pv))
            elif arg == want:
                ctx.holds(r1, f"{site} {nm}", f"Phi({want})")
            else:
                ctx.violated(r1, ts_m if false_branch or True else pv_m, f"{nm} argument [{stat}, {label}]", f"{nm} for {stat} ({label}) is Phi({arg}), the asymptotic formula is Phi({want})", expected=str(want), found=str(arg))
    # seam
    Tt, Tf = results.get(("qtilde", "sqrtq<sqrtqA")), results.get(("qtilde", "sqrtq>sqrtqA"))
    if Tt is not None and Tf is not None:
        try:
            if Tt.subs({"Q": QA}) == Tf.subs({"Q": QA}):
                ctx.holds(r1, f"{CALC}::teststatistic[qtilde] seam q=qA", str(Tt.subs({"Q": QA})))
            else:
                ctx.violated(r1, ts_m, "qtilde seam", "the two qtilde branches disagree at q = qA", found=f"{Tt.subs({'Q': QA})} vs {Tf.subs({'Q': QA})}")
        except Undecided as e:
            ctx.undecided(r1, "qtilde seam", str(e))
        if Tt == s - a and Tf != s - a:
            ctx.holds(r2, f"{CALC}::teststatistic[qtilde]", "sqrt(q) <= sqrt(qA) selects the square-root form, > the quadratic form")
        else:
            ctx.violated(r2, ts_m, "qtilde branch orientation", "the qtilde branches are selected the wrong way round (or are identical)", expected="sqrtq<=sqrtqA -> sqrtq - sqrtqA", found=f"true: {Tt}; false: {Tf}")
    for stat in ("q", "q0"):
        t1, t2 = results.get((stat, "sqrtq<sqrtqA")), results.get((stat, "sqrtq>sqrtqA"))
        if t1 is not None and t2 is not None:
            if t1 == t2 == s - a:
                ctx.holds(r2, f"{CALC}::teststatistic[{stat}]", "single form sqrt(q) - sqrt(qA)")
            else:
                ctx.violated(r2, ts_m, f"{stat} form", f"{stat} must use sqrt(q) - sqrt(qA) regardless of the ordering", found=f"{t1} / {t2}")
    # CLs = CLsb / CLb
    pvs = calc.methods["pvalues"]
    try:
        it = Interp({"teststat": Poly.atom("T"), "sig_plus_bkg_distribution": Obj("SB"), "bkg_only_distribution": Obj("B")}, {}, {}, cls_name=calc.name)
        out = it.run(A.strip_docstring(pvs.node.body))
        sb, b, cls = [to_poly(x) for x in out]
        wsb, wb = fn("pvalue", Poly.atom("SB"), Poly.atom("T")), fn("pvalue", Poly.atom("B"), Poly.atom("T"))
        if sb == wsb and b == wb and cls == wsb / wb:
            ctx.holds(r1, f"{CALC}::AsymptoticCalculator.pvalues", "(CLsb, CLb, CLsb/CLb)")
        else:
            ctx.violated(r1, pvs, "pvalues", "pvalues does not return (sb.pvalue(t), b.pvalue(t), their ratio)", expected=f"({wsb}, {wb}, ratio)", found=f"({sb}, {b}, {cls})")
    except Undecided as e:
        ctx.unrecognised(r1, pvs, "pvalues", str(e))

    # ---- R3 complement lint over the module
    mod = repo.module(CALC)
    n_bad = 0
    for f in mod.funcs.values():
        for n in ast.walk(f.node):
            if isinstance(n, ast.BinOp) and isinstance(n.op, ast.Sub) and A.const_value(n.left) in (1, 1.0):
                if any(A.call_attr(c) in ("normal_cdf", "cdf") for c in A.calls_in(n.right)):
                    n_bad += 1
                    ctx.violated(r3, f, n, "tail probability computed as 1 - cdf(x): loses all precision beyond ~8 sigma although the value is representable", expected="cdf(-x)", node=n)
    if not n_bad:
        ctx.holds(r3, f"{CALC}", "no complement of a cdf on the p-value path")

    # ---- R4 expected_value and NaN masking
    for rep, want, lab in ((Fraction(5), "shift+n", "above cutoff"), (Fraction(-5), "cutoff", "below cutoff")):
        try:
            reg = {"SHIFT": Fraction(0), "N": rep, "CUT": Fraction(0)}
            it = Interp({"nsigma": Poly.atom("N")}, {"shift": Poly.atom("SHIFT"), "cutoff": Poly.atom("CUT")}, reg, cls_name=dist.name)
            v = to_poly(it.run(A.strip_docstring(ev_m.node.body)))
            w = Poly.atom("SHIFT") + Poly.atom("N") if want == "shift+n" else Poly.atom("CUT")
            if v == w:
                ctx.holds(r4, f"{CALC}::expected_value [{lab}]", str(w))
            else:
                ctx.violated(r4, ev_m, f"expected_value [{lab}]", "expected test-statistic value is not clipped at the cutoff correctly", expected=str(w), found=str(v))
        except Undecided as e:
            ctx.unrecognised(r4, ev_m, "expected_value", str(e))
    try:
        reg = {"V": Fraction(-5), "CUT": Fraction(0), "SHIFT": Fraction(0)}
        v = pvalue(Poly.atom("V"), Poly.atom("SHIFT"), Poly.atom("CUT"), reg)
        if "NAN" in {x for m in v.t for x, _ in m}:
            ctx.holds(r4, f"{CALC}::pvalue [value < cutoff]", "NaN")
        else:
            ctx.violated(r4, pv_m, "pvalue below cutoff", "a test statistic below the cutoff of the clipped distribution yields a number instead of NaN", found=str(v))
        reg["V"] = Fraction(5)
        v = pvalue(Poly.atom("V"), Poly.atom("SHIFT"), Poly.atom("CUT"), reg)
        if _cdf_arg(v) == -(Poly.atom("V") - Poly.atom("SHIFT")):
            ctx.holds(r4, f"{CALC}::pvalue [value >= cutoff]", "Phi(-(value-shift))")
        else:
            ctx.violated(r4, pv_m, "pvalue above cutoff", "p-value above the cutoff is not Phi(-(value - shift))", found=str(v))
    except Undecided as e:
        ctx.unrecognised(r4, pv_m, "pvalue", str(e))

    # ---- R5 band: expected_pvalues interpreted on real distribution objects
    from ..objmodel import Instance, World
    ep = calc.methods["expected_pvalues"]
    cdf = lambda x: fn("normal_cdf", to_poly(x))
    for aval in (Fraction(5, 2), Fraction(1, 2), Fraction(3, 2)):
        for base, cut in (("normal", Poly.atom("NEGINF")), ("clipped_normal", -a)):
            label = f"expected_pvalues[{base}, sqrt(qA)={aval}]"
            reg = {aname: aval, "NEGINF": NEG, "QA": aval ** 2}
            try:
                w = World({}, region=reg)
                w.add_class(calc).add_class(dist)
                sbd = w.new(dist, [shift_sb, cut], {})
                bd = w.new(dist, [shift_b, cut], {})
                out = w.call_method(Instance(calc), "expected_pvalues", [sbd, bd])
            except Undecided as e:
                ctx.unrecognised(r5, ep, label, f"not interpretable: {e}")
                continue
            if not (isinstance(out, (list, tuple)) and len(out) == 3 and all(isinstance(r_, (list, tuple)) and len(r_) == 5 for r_ in out)):
                ctx.violated(r5, ep, label, "the expected p-values are not three lists (CLsb, CLb, CLs) of five entries (-2 ... +2 sigma)", expected="[[5 x CLsb], [5 x CLb], [5 x CLs]]", found=A.short(ast.parse(repr([len(r_) if isinstance(r_, (list, tuple)) else '?' for r_ in out]) if isinstance(out, (list, tuple)) else "'?'"), 60))
                continue
            cutv = cut.evalf(reg)
            bad = None
            for i_, N in enumerate((2, 1, 0, -1, -2)):
                tN = Poly.const(N) if Fraction(N) >= cutv else cut
                wsb, wb = cdf(-(tN + a)), cdf(-tN)
                got = [to_poly(out[0][i_]), to_poly(out[1][i_]), to_poly(out[2][i_])]
                for nm, g, wv in zip(("CLsb", "CLb", "CLs"), got, (wsb, wb, wsb / wb)):
                    if g != wv and bad is None:
                        bad = (nm, N, g, wv)
            if bad is None:
                ctx.holds(r5, f"{CALC}::{label}", "Phi(-(t_N + sqrt qA)), Phi(-t_N), ratio; t_N = max(N, cutoff), N = 2, 1, 0, -1, -2")
            else:
                nm, N, g, wv = bad
                ctx.violated(r5, ep, label, f"expected {nm} at N = {N} (entry for {-N:+d} sigma) is {g}: the N-sigma expected value is the p-value of the background-only distribution's expected test statistic t_N = max(N, cutoff) under the respective distribution", expected=str(wv), found=str(g))

    # ---- R6
    first = A.strip_docstring(di_m.node.body)[0]
    ok = isinstance(first, ast.If) and "sqrtqmuA_v" in A.unparse(first.test) and any(isinstance(x, ast.Raise) for x in first.body)
    if ok:
        ctx.holds(r6, f"{CALC}::distributions", "raises when teststatistic() has not run")
    else:
        ctx.violated(r6, di_m, "distributions precondition", "distributions() no longer refuses to run before teststatistic() (it would use a stale or missing sqrt(qA))", expected="if self.sqrtqmuA_v is None: raise")


def _exc_name(r):
    e = r.exc.func if isinstance(r.exc, ast.Call) else r.exc
    return (A.dotted(e) or "").split(".")[-1] if e is not None else None


def _cdf_arg(p: Poly):
    """If p is exactly one normal_cdf<arg> atom with coefficient 1, return arg."""
    if len(p.t) != 1:
        return None
    (m, c), = p.t.items()
    if c != 1 or len(m) != 1 or m[0][1] != 1:
        return None
    nm = m[0][0]
    if nm in _ATOMS and _ATOMS[nm][0] == "normal_cdf":
        return _ATOMS[nm][1][0]
    return None
