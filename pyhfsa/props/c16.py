"""C16 -- workspace combine / prune / rename / sort (structural necessary conditions).

  R1 EFFECT  no operation writes into data owned by its inputs (left, right, self, workspace, model):
             every mutation sink's receiver derives only from fresh or deep-copied data
  R2 ORDER   every operation returns through the validating constructor (Workspace(...)/cls(...))
  R3 RAISE   versions must agree; channels / observations / measurements each refuse name clashes under
             join='none' and incompatible duplicates under 'outer' (measurements additionally POI and
             parameter-config conflicts); combine validates the join mode first
  R4 TABLE   rename/prune are applied per namespace: channel names (channels, observations), parameter
             names (modifiers, measurement parameters, POI), samples, measurements, modifier types --
             decided by interpreting _prune_and_rename on a symbolic workspace; unknown names are refused first
  R5 TABLE   sorted() sorts channels, samples, modifiers (by name, type), measurements, parameters, observations
"""

from __future__ import annotations

import ast

from .. import astutil as A
from ..alg import RaisedInFragment, Closure, Interp, Obj, Poly, PyFunc, Undecided
from ..dep import FlowDeps

EXPLANATION = (
    "Ownership/effect rule: in every workspace operation each mutation sink (subscript store, in-place method, "
    "augmented assignment, del) must have a receiver that derives, flow-sensitively, only from deep copies, fresh "
    "literals or results of helpers that return fresh data -- never from a parameter or self. _prune_and_rename is "
    "abstractly interpreted on a symbolic two-channel workspace with every rename/prune option exercised, and the "
    "resulting specification is compared with the expected relabelling per namespace (channel names also in "
    "observations; modifier names also in measurement parameters and the POI). The conflict checks of the three "
    "section joins are compared as siblings; sort keys are read structurally. NOT decided: likelihood equality."
)
ASSUMPTIONS = ["copy.deepcopy result shares nothing with its argument", "Workspace.__init__ validates and deep-copies (C12.R3)"]
WS = "src/pyhf/workspace.py"
MUT = {"append", "extend", "insert", "remove", "pop", "clear", "sort", "reverse", "update", "setdefault", "popitem", "add", "discard"}


class OwnFlow(FlowDeps):
    """FlowDeps in which deepcopy(...) and calls of helpers known to return fresh data cut the dependence."""

    fresh_callees: set = set()

    def _assign(self, tgt, val_roots, env, value=None):
        # storing a value INTO a container does not change who owns the container
        if isinstance(tgt, (ast.Subscript,)) or (isinstance(tgt, ast.Attribute) and not (isinstance(tgt.value, ast.Name) and tgt.value.id == "self")):
            return
        super()._assign(tgt, val_roots, env, value)

    def _effects(self, expr, env):
        return

    def _augassign(self, st, env):
        # `acc += items` extends the container `acc` already is: WHO OWNS that container does not change (the items are shared
        # element-wise, like with acc.extend(items)); whether `acc` itself is the caller's is what the sink test asks
        if isinstance(st.target, ast.Name):
            return
        super()._augassign(st, env)

    def _roots(self, expr, env):
        if expr is None:
            return set()
        if isinstance(expr, ast.Call):
            nm = (A.call_name(expr) or "").split(".")[-1]
            if nm in ("deepcopy",) or nm in self.fresh_callees:
                return set()
            if nm == "reduce" and len(expr.args) == 3:
                return self._roots(expr.args[2], env)  # reduce(iadd, items, init) accumulates into init
        if isinstance(expr, (ast.Dict, ast.List, ast.Set, ast.ListComp, ast.DictComp, ast.SetComp)) and not list(_children_exprs(expr)):
            return set()
        if isinstance(expr, (ast.Subscript, ast.Attribute)):
            return self._roots(expr.value, env) if not isinstance(expr, ast.Attribute) or not isinstance(expr.value, ast.Name) or expr.value.id != "self" else super()._roots(expr, env)
        if isinstance(expr, ast.Name):
            return set(env.get(expr.id, {expr.id}))
        out = set()
        for c in ast.iter_child_nodes(expr):
            if isinstance(c, ast.expr):
                out |= self._roots(c, env)
            elif isinstance(c, ast.comprehension):
                out |= self._roots(c.iter, env)
            elif isinstance(c, ast.keyword):
                out |= self._roots(c.value, env)
        return out


def _children_exprs(e):
    for c in ast.iter_child_nodes(e):
        if isinstance(c, (ast.expr, ast.comprehension)):
            yield c


def run(ctx):
    repo = ctx.repo
    m = repo.module(WS)
    ws = repo.cls(WS, "Workspace")
    helpers = [m.funcs[q] for q in ("_join_items", "_join_versions", "_join_channels", "_join_observations", "_join_parameter_configs", "_join_measurements")]
    methods = [ws.methods[q] for q in ("_prune_and_rename", "prune", "rename", "combine", "sorted", "build", "model", "data")]
    for f in helpers + methods:
        ctx.touch(f)
    r1 = ctx.rule("C16.R1", "EFFECT: no mutation sink in a workspace operation has a receiver that derives from a parameter / self (inputs are left untouched); in-place sort only on deep copies", "EFFECT", floor=10)
    r2 = ctx.rule("C16.R2", "ORDER: combine, sorted, build, _prune_and_rename return Workspace(...)/cls(...); prune and rename return _prune_and_rename(...)", "ORDER", floor=6)
    r3 = ctx.rule("C16.R3", "RAISE/SIB: _join_versions refuses different versions; channels, observations, measurements: name intersection under 'none' and duplicate count under 'outer' raise InvalidWorkspaceOperation; measurements: POI conflict and parameter-config conflict; combine checks join mode and merge compatibility before joining and joins all four sections", "RAISE", floor=12)
    r4 = ctx.rule("C16.R4", "TABLE: _prune_and_rename renames channel names in channels and observations, modifier names in modifiers, measurement parameters and POI, sample and measurement names at their site; prunes the named items in every place they occur; unknown names are refused before the rebuild", "TABLE", floor=12)
    r6 = ctx.rule("C16.R6", "ALG: _join_items on symbolic item lists: 'none' keeps every item of both sides; 'outer' adds right items that are not identical to a left item; 'left outer' adds right items whose name is new, keeping the left version of a clash; 'right outer' the mirror image; deep merging joins the sub-lists of items with the same name; inputs are not modified", "ALG", floor=5)
    r7 = ctx.rule("C16.R7", "OBJECT-HISTORY (interpreted): real Workspace objects (Workspace.__init__ through the channel-summary mixin into dict, class-level attributes shared by all instances as in Python) built one after the other in ONE process for two specifications with the SAME channel name and different observations and measurement names; each object's observations / measurement_names / data(model) are its own afterwards; combine(left, right, 'left outer') then leaves both inputs' payload, observations and data() as they were and returns the left observation for the common channel", "HISTORY", floor=1)
    _object_history(ctx, r7, repo)
    workspace_verbatim(ctx, r7, repo)
    r8 = ctx.rule("C16.R8", "SCHEMA-KEYS (composition of two files): every top-level key the workspace operations read UNCONDITIONALLY from a workspace (`self['version']`, `left['channels']` ... in combine, prune/rename, sorted, the constructor, model, get_measurement) is listed as `required` for a workspace in the shipped schema (schemas/<version>/defs.json): a document the schema accepts cannot make an operation fail with KeyError", "PAIR", floor=4)
    _schema_keys(ctx, r8, repo, ws)
    r5 = ctx.rule("C16.R5", "TABLE: sorted sorts channels, samples, measurements, parameters, observations by name and modifiers by (name, type)", "TABLE", floor=6)

    # ------------------------------------------------------------ R1
    fresh = set()
    for _ in range(3):  # summaries to a fixpoint: a helper is 'fresh' if every returned value has no caller-owned root
        for f in helpers:
            OwnFlow.fresh_callees = fresh
            fd = OwnFlow(f.node)
            params = {p.lstrip("*") for p in A.params_of(f.node)}
            rets = [r for r in ast.walk(f.node) if isinstance(r, ast.Return) and r.value is not None]
            if rets and all(not (fd.roots(r.value, at=r) & params) for r in rets):
                fresh.add(f.name)
    ctx.extra["fresh_helpers"] = sorted(fresh)
    OwnFlow.fresh_callees = fresh
    for f in helpers + methods:
        fd = OwnFlow(f.node)
        params = {p.lstrip("*") for p in A.params_of(f.node)} - {"cls"}
        n_sinks = 0
        bad = []
        for n in ast.walk(f.node):
            recv = None
            if isinstance(n, ast.Call) and isinstance(n.func, ast.Attribute) and n.func.attr in MUT:
                recv = n.func.value
            elif isinstance(n, ast.Assign):
                for t in n.targets:
                    if isinstance(t, ast.Subscript):
                        recv = t.value
            elif isinstance(n, ast.AugAssign):
                recv = n.target.value if isinstance(n.target, ast.Subscript) else n.target
            elif isinstance(n, ast.Delete):
                for t in n.targets:
                    if isinstance(t, ast.Subscript):
                        recv = t.value
            if recv is None:
                continue
            n_sinks += 1
            st = fd.stmt_of.get(id(n)) or (n if isinstance(n, ast.stmt) else None)
            roots = fd.roots(recv, at=st)
            owned = roots & (params | {"self"})
            # config_kwargs / keyword dicts of the call itself are the callee's own
            owned -= {"config_kwargs", "kwargs"}
            if owned:
                bad.append((n, owned))
        site = f"{WS}::{f.qualname}"
        if bad:
            n, owned = bad[0]
            ctx.violated(r1, f, n, f"`{A.short(n, 70)}` writes into data that aliases the input {sorted(owned)}: the operation modifies the caller's workspace in place", expected="operate on copy.deepcopy(...) / fresh structures", node=n)
        else:
            ctx.holds(r1, site, f"{n_sinks} mutation sink(s), all on fresh / deep-copied data")

    # ------------------------------------------------------------ R2
    for q, want in (("_prune_and_rename", "Workspace"), ("combine", "cls"), ("sorted", "cls"), ("build", "cls")):
        f = ws.methods[q]
        rets = [r for r in ast.walk(f.node) if isinstance(r, ast.Return) and r.value is not None]
        if rets and all(isinstance(r.value, ast.Call) and A.call_attr(r.value) in ("Workspace", "cls") for r in rets):
            # validate must not be forced off
            off = [r for r in rets if any(k.arg == "validate" and A.const_value(k.value) is False for k in r.value.keywords)]
            if off:
                ctx.violated(r2, f, off[0], "the result is constructed with validate=False: a schema-invalid workspace can be returned", node=off[0])
            else:
                ctx.holds(r2, f"{WS}::Workspace.{q}", "returns through the validating constructor")
        else:
            ctx.violated(r2, f, "return", f"{q} does not return a workspace built by the validating constructor (plain dict / input object returned)", node=f.node)
    for q in ("prune", "rename"):
        f = ws.methods[q]
        rets = [r for r in ast.walk(f.node) if isinstance(r, ast.Return) and r.value is not None]
        if rets and all(isinstance(r.value, ast.Call) and A.call_attr(r.value) == "_prune_and_rename" for r in rets):
            ctx.holds(r2, f"{WS}::Workspace.{q}", "delegates to _prune_and_rename")
        else:
            ctx.violated(r2, f, "return", f"{q} does not delegate to _prune_and_rename", node=f.node)

    # ------------------------------------------------------------ R3
    jv = m.funcs["_join_versions"]
    okv = any(isinstance(n, ast.If) and isinstance(n.test, ast.Compare) and isinstance(n.test.ops[0], ast.NotEq) and {A.unparse(n.test.left), A.unparse(n.test.comparators[0])} == {"left_version", "right_version"} and any(_exc(r) == "InvalidWorkspaceOperation" for r in ast.walk(n) if isinstance(r, ast.Raise)) for n in ast.walk(jv.node))
    if okv:
        ctx.holds(r3, f"{WS}::_join_versions", "different versions refused")
    else:
        ctx.violated(r3, jv, "version check", "workspaces of different schema versions are no longer refused", node=jv.node)
    for q, lname in (("_join_channels", "channels"), ("_join_observations", "observations"), ("_join_measurements", "measurements")):
        f = m.funcs[q]
        arms = {}
        for n in ast.walk(f.node):
            if isinstance(n, ast.If) and isinstance(n.test, ast.Compare) and A.unparse(n.test.left) == "join" and isinstance(n.test.ops[0], ast.Eq):
                arms[A.const_value(n.test.comparators[0])] = n
        for arm, what in (("none", "intersection"), ("outer", "Counter")):
            n = arms.get(arm)
            if n is None:
                ctx.violated(r3, f, f"join == {arm!r}", f"{q} has no `{arm}` arm: {lname} with clashing names are joined without any check", node=f.node)
                continue
            body = A.unparse(ast.Module(body=n.body, type_ignores=[]))
            has_raise = [r for st in n.body for r in ast.walk(st) if isinstance(r, ast.Raise)]
            seen_h, todo_h = set(), [x for st in n.body for x in ast.walk(st) if isinstance(x, ast.Call) and isinstance(x.func, ast.Name)]
            while todo_h and len(seen_h) < 6:
                c_ = todo_h.pop()
                kind_, obj_ = repo.resolve_name(m, c_.func.id)
                if kind_ == "func" and obj_.module is m and obj_.qualname not in seen_h:
                    seen_h.add(obj_.qualname)
                    body += "\n" + A.unparse(obj_.node)  # a module-level helper the arm computes its clash list with / refuses through
                    has_raise += [r for r in ast.walk(obj_.node) if isinstance(r, ast.Raise)]
                    todo_h += [x for x in ast.walk(obj_.node) if isinstance(x, ast.Call) and isinstance(x.func, ast.Name)]
            needs = ("intersection" in body or " & " in body) if arm == "none" else ("Counter" in body or "count" in body or "len(" in body)
            if has_raise and all(_exc(r) == "InvalidWorkspaceOperation" for r in has_raise) and needs:
                ctx.holds(r3, f"{WS}::{q} [{arm}]", f"{what}-based conflict check raises InvalidWorkspaceOperation")
            else:
                ctx.violated(r3, f, f"{q} [{arm}] conflict check", f"under join='{arm}' clashing {lname} are not refused with InvalidWorkspaceOperation", node=n)
        if lname in ("channels", "observations", "measurements"):
            none_arm = arms.get("none")
            if none_arm is not None:
                txt = A.unparse(ast.Module(body=none_arm.body, type_ignores=[]))
                if f"left_{lname}" in txt and f"right_{lname}" in txt:
                    ctx.holds(r3, f"{WS}::{q} [none]", "compares names of left and right")
                else:
                    ctx.violated(r3, f, f"{q} [none] operands", "the name-clash test does not compare the left with the right workspace", node=none_arm)
    jm = m.funcs["_join_measurements"]
    jp = m.funcs["_join_parameter_configs"]
    _measurement_joins(ctx, r3, repo, m, jm)
    cb = ws.methods["combine"]
    first_join = min([c.lineno for c in A.calls_in(cb.node) if (A.call_attr(c) or "").startswith("_join_")] or [10 ** 9])
    checks = [n for n in ast.walk(cb.node) if isinstance(n, ast.If) and n.lineno < first_join and any(isinstance(r, ast.Raise) for r in ast.walk(n))]
    ok_join = any("valid_joins" in A.unparse(n.test) for n in checks)
    ok_merge = any("merge_channels" in A.unparse(n.test) for n in checks)
    if ok_join and ok_merge:
        ctx.holds(r3, f"{WS}::Workspace.combine", "join mode and merge compatibility validated before joining")
    else:
        ctx.violated(r3, cb, "join validation", "combine no longer validates the join mode / merge flag before joining", node=cb.node)
    called = {}
    for c in A.calls_in(cb.node):
        nm = A.call_attr(c) or ""
        if nm.startswith("_join_"):
            called[nm] = [A.unparse(a) for a in c.args]
    want = {"_join_versions": "version", "_join_channels": "channels", "_join_observations": "observations", "_join_measurements": "measurements"}
    for nm, sec in want.items():
        a = called.get(nm)
        takes_join = nm in m.funcs and "join" in A.params_of(m.funcs[nm].node)
        if a and not takes_join and a == [f"left['{sec}']", f"right['{sec}']"]:
            a = ["join"] + a  # the helper has no use for the mode (versions either agree or they do not)
        if a and a[0] == "join" and a[1] == f"left['{sec}']" and a[2] == f"right['{sec}']":
            ctx.holds(r3, f"{WS}::Workspace.combine -> {nm}", f"(join, left['{sec}'], right['{sec}'])")
        else:
            ctx.violated(r3, cb, nm, f"combine does not join section '{sec}' of left and right with the requested mode", found=str(a), node=cb.node)
    try:
        recj = {}
        def jn(tag):
            return lambda a, k: (recj.__setitem__(tag, (a, k)) or Poly.atom("J_" + tag))
        out = {}
        ext = {"_join_versions": jn("version"), "_join_channels": jn("channels"), "_join_observations": jn("observations"), "_join_measurements": jn("measurements"),
               "cls": lambda a, k: (out.__setitem__("spec", a[0]) or Obj("RESULT"))}
        left = {"version": Poly.atom("LV"), "channels": Poly.atom("LC"), "observations": Poly.atom("LO"), "measurements": Poly.atom("LM")}
        right = {"version": Poly.atom("RV"), "channels": Poly.atom("RC"), "observations": Poly.atom("RO"), "measurements": Poly.atom("RM")}
        env = {"cls": Obj("cls"), "left": left, "right": right, "join": "none", "merge_channels": False, "validate": True, "Workspace": Obj("Workspace", {"valid_joins": ["none", "outer", "left outer", "right outer"]}), "log": Obj("log")}
        res = Interp(env, {}, {}, externals=ext).run(A.strip_docstring(cb.node.body))
        sp = out.get("spec", {})
        got = {k: str(v) for k, v in sp.items()} if isinstance(sp, dict) else sp
        if got == {"channels": "J_channels", "measurements": "J_measurements", "observations": "J_observations", "version": "J_version"} and isinstance(res, Obj) and res.name == "RESULT":
            ctx.holds(r3, f"{WS}::Workspace.combine", "result carries all four joined sections (interpreted)")
        else:
            ctx.violated(r3, cb, "combined specification", "the combined specification does not carry each joined section under its own key", found=str(got), node=cb.node)
    except (Undecided, KeyError, TypeError) as e:
        ctx.unrecognised(r3, cb, "combine", f"not interpretable: {e}")

    # ------------------------------------------------------------ R6 join semantics
    ji = m.funcs["_join_items"]
    def item(name, tag, subs=None):
        d_ = {"name": name, "payload": Poly.atom(tag)}
        if subs is not None:
            d_["samples"] = [{"name": n_, "payload": Poly.atom(t_)} for n_, t_ in subs]
        return d_
    def show(items):
        return [(it_["name"], str(it_["payload"])) + ((tuple((x["name"], str(x["payload"])) for x in it_["samples"]),) if "samples" in it_ else ()) for it_ in items]
    L = lambda: [item("a", "LA"), item("b", "LB")]
    R = lambda: [item("b", "RB"), item("c", "RC"), item("a", "LA")]
    expect = {
        "none": [("a", "LA"), ("b", "LB"), ("b", "RB"), ("c", "RC"), ("a", "LA")],
        "outer": [("a", "LA"), ("b", "LB"), ("b", "RB"), ("c", "RC")],
        "left outer": [("a", "LA"), ("b", "LB"), ("c", "RC")],
        "right outer": [("b", "RB"), ("c", "RC"), ("a", "LA")],
    }
    for mode, want in expect.items():
        try:
            li, ri = L(), R()
            out = Interp({"_join_items": Closure(ji.node, None)}, {}, {}).call_function(ji.node, [mode, li, ri])
            got = show(out)
            untouched = show(li) == show(L()) and show(ri) == show(R())
            if got == want and untouched:
                ctx.holds(r6, f"{WS}::_join_items [{mode}]", str(got))
            elif not untouched:
                ctx.violated(r6, ji, f"_join_items [{mode}] inputs", "joining modifies one of its input lists", found=f"left={show(li)} right={show(ri)}")
            else:
                ctx.violated(r6, ji, f"_join_items [{mode}]", f"the '{mode}' join of [a, b] with [b', c, a] is not what the join mode promises", expected=str(want), found=str(got))
        except (Undecided, KeyError, TypeError, ValueError) as e:
            ctx.unrecognised(r6, ji, f"_join_items [{mode}]", f"not interpretable: {type(e).__name__}: {e}")
    try:
        li = [item("ch", "LCH", [("s1", "LS1")])]
        ri = [item("ch", "RCH", [("s1", "RS1"), ("s2", "RS2")])]
        out = Interp({"_join_items": Closure(ji.node, None)}, {}, {}).call_function(ji.node, ["left outer", li, ri], {"deep_merge_key": "samples"})
        got = show(out)
        want = [("ch", "LCH", (("s1", "LS1"), ("s2", "RS2")))]
        if got == want and show(li) == [("ch", "LCH", (("s1", "LS1"),))]:
            ctx.holds(r6, f"{WS}::_join_items [deep merge]", str(got))
        else:
            ctx.violated(r6, ji, "_join_items [deep merge]", "merging channels does not join the sample lists of equally named channels (keeping the left sample on a clash) or modifies its input", expected=str(want), found=f"{got}; left after = {show(li)}")
    except (Undecided, KeyError, TypeError, ValueError) as e:
        ctx.unrecognised(r6, ji, "_join_items [deep merge]", f"not interpretable: {type(e).__name__}: {e}")

    # ------------------------------------------------------------ R4 by interpretation
    pr = ws.methods["_prune_and_rename"]
    _namespaces(ctx, r4, pr)
    pre_loops = [n for n in ast.walk(pr.node) if isinstance(n, ast.For) and any(isinstance(r, ast.Raise) for r in ast.walk(n))]
    for h_ in repo.helpers_of(pr, depth=1):  # the checks may live in a helper the method calls before it rebuilds: they count at the call
        calls_ = [c for c in A.calls_in(pr.node) if (A.call_attr(c) or "") == h_.name]
        for n in ast.walk(h_.node):
            if isinstance(n, ast.For) and any(isinstance(r, ast.Raise) for r in ast.walk(n)) and calls_:
                n2 = ast.copy_location(ast.For(target=n.target, iter=n.iter, body=n.body, orelse=n.orelse), calls_[0])
                pre_loops.append(n2)
    newspec_line = min([n.lineno for n in ast.walk(pr.node) if isinstance(n, ast.Dict) and any(A.const_value(k) == "channels" for k in n.keys if k is not None)] or [0])
    if len(pre_loops) >= 5 and all(l.lineno < newspec_line for l in pre_loops) and all(_exc(r) == "InvalidWorkspaceOperation" for l in pre_loops for r in ast.walk(l) if isinstance(r, ast.Raise)):
        ctx.holds(r4, f"{WS}::_prune_and_rename", f"{len(pre_loops)} unknown-name checks precede the rebuild")
    else:
        ctx.violated(r4, pr, "unknown-name checks", "names that do not exist in the workspace are no longer refused (for every namespace) before the rebuild", found=f"{len(pre_loops)} checks", node=pr.node)
    for q, amap in (("prune", {"modifiers": "prune_modifiers", "modifier_types": "prune_modifier_types", "samples": "prune_samples", "channels": "prune_channels", "measurements": "prune_measurements"}),
                    ("rename", {"modifiers": "rename_modifiers", "samples": "rename_samples", "channels": "rename_channels", "measurements": "rename_measurements"})):
        f = ws.methods[q]
        c = next((c for c in A.calls_in(f.node) if A.call_attr(c) == "_prune_and_rename"), None)
        got = {k.arg: A.unparse(k.value) for k in c.keywords} if c else {}
        wantm = {v: k for k, v in amap.items()}
        if got == wantm:
            ctx.holds(r4, f"{WS}::Workspace.{q}", "each selection forwarded to its own namespace")
        else:
            ctx.violated(r4, f, "_prune_and_rename(...)", f"{q} forwards a selection to the wrong namespace", expected=str(wantm), found=str(got), node=f.node)

    # ------------------------------------------------------------ R5
    so = ws.methods["sorted"]
    try:
        wsd = {
            "channels": [
                {"name": "zc", "samples": [{"name": "zs", "data": [], "modifiers": [{"name": "b", "type": "t2", "data": None}, {"name": "b", "type": "t1", "data": None}, {"name": "a", "type": "t9", "data": None}]}, {"name": "as", "data": [], "modifiers": []}]},
                {"name": "ac", "samples": [{"name": "s", "data": [], "modifiers": []}]},
            ],
            "measurements": [{"name": "zm", "config": {"poi": "p", "parameters": [{"name": "zp"}, {"name": "ap"}]}}, {"name": "am", "config": {"poi": "p", "parameters": []}}],
            "observations": [{"name": "zc", "data": []}, {"name": "ac", "data": []}],
            "version": "1.0.0",
        }
        out = {}
        Interp({"cls": Obj("cls"), "workspace": wsd}, {}, {}, externals={"cls": lambda a, k: (out.__setitem__("spec", a[0]) or Obj("RESULT"))}).run(A.strip_docstring(so.node.body))
        sp = out["spec"]
        checks = [
            ("channels", [c["name"] for c in sp["channels"]], ["ac", "zc"]),
            ("samples", [x["name"] for x in sp["channels"][1]["samples"]], ["as", "zs"]),
            ("modifiers (name, type)", [(x["name"], x["type"]) for x in sp["channels"][1]["samples"][1]["modifiers"]], [("a", "t9"), ("b", "t1"), ("b", "t2")]),
            ("measurements", [x["name"] for x in sp["measurements"]], ["am", "zm"]),
            ("parameters", [x["name"] for x in sp["measurements"][1]["config"]["parameters"]], ["ap", "zp"]),
            ("observations", [x["name"] for x in sp["observations"]], ["ac", "zc"]),
        ]
        for what, got, want in checks:
            if got == want:
                ctx.holds(r5, f"{WS}::Workspace.sorted: {what}", f"{want}")
            else:
                ctx.violated(r5, so, f"sorted: {what}", f"the {what} of a sorted workspace are not in canonical order: the result depends on the listing order of the input", expected=str(want), found=str(got), node=so.node)
    except (Undecided, KeyError, TypeError, IndexError) as e:
        ctx.unrecognised(r5, so, "sorted", f"not interpretable: {e}")


def _exc(r):
    if r.exc is None:
        return None
    e = r.exc.func if isinstance(r.exc, ast.Call) else r.exc
    return (A.dotted(e) or "?").split(".")[-1]


def _namespaces(ctx, rid, pr):
    def mk():
        return {
            "channels": [
                {"name": "c1", "samples": [{"name": "s1", "data": [Poly.atom("d")], "modifiers": [{"name": "m1", "type": "normsys", "data": Obj("md")}, {"name": "m2", "type": "histosys", "data": Obj("md2")}]},
                                           {"name": "s2", "data": [Poly.atom("e")], "modifiers": [{"name": "m3", "type": "lumi", "data": None}]}]},
                {"name": "c2", "samples": [{"name": "s1", "data": [Poly.atom("f")], "modifiers": [{"name": "m1", "type": "normsys", "data": Obj("md")}, {"name": "m2", "type": "normsys", "data": Obj("md3")}]}]},  # m2 is histosys in c1 and normsys here (one parameter, two types)
            ],
            "measurements": [{"name": "meas1", "config": {"poi": "m1", "parameters": [{"name": "m1", "inits": [Poly.const(1)]}, {"name": "m2", "fixed": True}]}}, {"name": "meas2", "config": {"poi": "m1", "parameters": []}}],
            "observations": [{"name": "c1", "data": [Poly.atom("o1")]}, {"name": "c2", "data": [Poly.atom("o2")]}],
            "version": "1.0.0",
        }

    ctor_copies = _ctor_deepcopies(ctx.repo.cls(WS, "Workspace").methods["__init__"])
    rec_alias = []

    def run_op(**opts):
        wsd = mk()
        attrs = {"modifiers": [("m1", "normsys"), ("m2", "histosys"), ("m2", "normsys"), ("m3", "lumi")], "samples": ["s1", "s2"], "channels": ["c1", "c2"], "measurement_names": ["meas1", "meas2"]}
        env = {"self": wsd, "exceptions": Obj("exc")}
        for p in A.params_of(pr.node):
            if p != "self":
                env[p] = opts.get(p)
        out = []
        import copy as _copy

        def ws_ctor(a, k):
            # the constructor's own behaviour: an unconditional deep copy of `spec` on entry gives an independent object
            out.append(_copy.deepcopy(a[0]) if ctor_copies and not ({kk for kk in k} - {"validate"}) else a[0])
            return Obj("WS")

        Interp(env, attrs, {}, cls_name="Workspace", externals={"Workspace": ws_ctor}).run(A.strip_docstring(pr.node.body))
        shared = _shared_containers(out[0], wsd)
        if shared:
            rec_alias.append(shared)
        return out[0]

    def names(spec):
        return {
            "channels": [c["name"] for c in spec["channels"]],
            "observations": [o["name"] for o in spec["observations"]],
            "samples": sorted({s["name"] for c in spec["channels"] for s in c["samples"]}),
            "modifiers": sorted({m["name"] for c in spec["channels"] for s in c["samples"] for m in s["modifiers"]}),
            "types": sorted({m["type"] for c in spec["channels"] for s in c["samples"] for m in s["modifiers"]}),
            "modifier cells": sorted(f"{c['name']}/{s['name']}/{m['name']}:{m['type']}" for c in spec["channels"] for s in c["samples"] for m in s["modifiers"]),
            "parameters": sorted({p["name"] for me in spec["measurements"] for p in me["config"]["parameters"]}),
            "poi": sorted({me["config"]["poi"] for me in spec["measurements"]}),
            "measurements": [me["name"] for me in spec["measurements"]],
        }

    cases = [
        ("rename channel", dict(rename_channels={"c1": "C1"}), {"channels": ["C1", "c2"], "observations": ["C1", "c2"]}),
        ("rename modifier", dict(rename_modifiers={"m1": "M1"}), {"modifiers": ["M1", "m2", "m3"], "parameters": ["M1", "m2"], "poi": ["M1"]}),
        ("rename sample", dict(rename_samples={"s1": "S1"}), {"samples": ["S1", "s2"]}),
        ("rename measurement", dict(rename_measurements={"meas1": "MEAS1"}), {"measurements": ["MEAS1", "meas2"]}),
        ("prune channel", dict(prune_channels=["c2"]), {"channels": ["c1"], "observations": ["c1"]}),
        ("prune modifier", dict(prune_modifiers=["m2"]), {"modifiers": ["m1", "m3"], "parameters": ["m1"], "types": ["lumi", "normsys"]}),
        ("prune modifier type", dict(prune_modifier_types=["lumi"]), {"types": ["histosys", "normsys"], "modifiers": ["m1", "m2"]}),
        ("prune modifier type shared name", dict(prune_modifier_types=["histosys"]), {"types": ["lumi", "normsys"], "modifier cells": ["c1/s1/m1:normsys", "c1/s2/m3:lumi", "c2/s1/m1:normsys", "c2/s1/m2:normsys"]}),
        ("prune sample", dict(prune_samples=["s2"]), {"samples": ["s1"], "modifiers": ["m1", "m2"], "types": ["histosys", "normsys"]}),
        ("prune measurement", dict(prune_measurements=["meas2"]), {"measurements": ["meas1"]}),
    ]
    base = names(mk())
    for label, opts, expect in cases:
        try:
            got = names(run_op(**opts))
        except RaisedInFragment as e:
            ctx.violated(rid, pr, f"_prune_and_rename [{label}]", f"{label}: a selection that names items present in the workspace is refused with {e.exc_name}", expected=str(expect), found=f"raise {e.exc_name}")
            continue
        except (Undecided, KeyError, TypeError, IndexError) as e:
            ctx.unrecognised(rid, pr, f"_prune_and_rename [{label}]", f"not interpretable: {type(e).__name__}: {e}")
            continue
        want = {k: v for k, v in base.items() if k != "modifier cells"}
        want.update(expect)
        diff = {k: (got[k], want[k]) for k in want if got[k] != want[k]}
        if not diff:
            ctx.holds(rid, f"{WS}::_prune_and_rename [{label}]", str(expect))
        else:
            k = sorted(diff)[0]
            ctx.violated(rid, pr, f"_prune_and_rename [{label}]", f"{label}: the `{k}` of the result are {diff[k][0]}, expected {diff[k][1]} (a name lives in several places of a workspace and must change in all of them, and nothing else may change)", expected=str(diff[k][1]), found=str(diff[k][0]))
    if rec_alias:
        ctx.violated(rid, pr, "prune / rename result shares data with its input", f"the workspace returned by prune/rename shares mutable containers with the workspace it was made from ({rec_alias[0][:3]}): editing one changes the other's specification and likelihood", expected="a new, independent workspace", found=f"{sum(len(x) for x in rec_alias)} shared container(s)")
    else:
        ctx.holds(rid, f"{WS}::_prune_and_rename [independence]", "no list/dict of the result is an object of the input" + ("" if ctor_copies else " (although the constructor does not deep-copy unconditionally)"))
    # identity: no options -> same names
    try:
        got = names(run_op())
        if got == base:
            ctx.holds(rid, f"{WS}::_prune_and_rename [no options]", "identity on all names")
        else:
            ctx.violated(rid, pr, "_prune_and_rename [no options]", "without options the rebuild changes names", found=str(got))
    except (Undecided, KeyError, TypeError) as e:
        ctx.unrecognised(rid, pr, "_prune_and_rename [no options]", str(e))


def _measurement_joins(ctx, rid, repo, m, jm):
    """_join_measurements (with _join_items and _join_parameter_configs) INTERPRETED on pairs of measurement lists."""
    from ..alg import Poly
    from ..objmodel import World
    at = Poly.atom

    def meas(name, poi, pars):
        return {"name": name, "config": {"poi": poi, "parameters": [dict(p_) for p_ in pars]}}

    P_A = {"name": "a", "inits": [at("ia")]}
    P_A2 = {"name": "a", "inits": [at("ia_other")]}
    P_B = {"name": "b", "fixed": True}
    cases = [
        ("none", [meas("m1", "mu", [P_A])], [meas("m2", "mu", [P_B])], ("ok", ["m1", "m2"])),
        ("none", [meas("m1", "mu", [P_A])], [meas("m1", "mu", [P_A])], ("raise", None)),
        ("outer", [meas("m1", "mu", [P_A])], [meas("m1", "mu", [P_B])], ("merged", {"m1": ("mu", ["a", "b"])})),
        ("outer", [meas("m1", "mu", [P_A])], [meas("m1", "nu", [P_A])], ("raise", None)),
        ("outer", [meas("m1", "", [P_A])], [meas("m1", "mu", [P_B])], ("raise", None)),
        ("outer", [meas("m1", "mu", [P_B])], [meas("m1", "", [P_A])], ("raise", None)),
        ("outer", [meas("m1", "mu", [P_A])], [meas("m1", "mu", [P_A2])], ("raise", None)),
        ("outer", [meas("m1", "mu", [P_A])], [meas("m2", "nu", [P_B])], ("ok", ["m1", "m2"])),
        ("left outer", [meas("m1", "mu", [P_A])], [meas("m1", "nu", [P_B]), meas("m2", "nu", [P_B])], ("merged", {"m1": ("mu", ["a"]), "m2": ("nu", ["b"])})),
        ("right outer", [meas("m1", "mu", [P_A]), meas("m0", "mu", [P_A])], [meas("m1", "nu", [P_B])], ("merged", {"m1": ("nu", ["b"]), "m0": ("mu", ["a"])})),
    ]
    for join, left, right, (kind, want) in cases:
        lab = f"join={join!r} left={[(x['name'], x['config']['poi'], [p_['name'] for p_ in x['config']['parameters']]) for x in left]} right={[(x['name'], x['config']['poi'], [p_['name'] for p_ in x['config']['parameters']]) for x in right]}"
        site = f"{WS}::_join_measurements [{lab}]"
        try:
            w = World({"__strict__": True, "Counter": lambda a, k: _counter(a[0])}, module_env={"exceptions": Obj("exceptions"), "Workspace": Obj("Workspace", {"valid_joins": ["none", "outer", "left outer", "right outer"]}), "collections": Obj("collections"), "log": Obj("log")})
            for q, f_ in m.funcs.items():
                if "." not in q:
                    w.add_func(f_)
            out = w.call_func(jm, [join, left, right])
            if kind == "raise":
                ctx.violated(rid, jm, f"measurement join [{lab}]", "two measurements of the same name that do not agree (different POI -- an empty POI is a POI definition too -- or different settings for one parameter, or a join mode that forbids the overlap) are joined instead of refused", expected="raise InvalidWorkspaceOperation", found=str([(x["name"], x["config"]["poi"]) for x in out]))
                continue
            got = {x["name"]: (x["config"]["poi"], sorted(p_["name"] for p_ in x["config"]["parameters"])) for x in out}
            wantd = {n: (None, None) for n in want} if kind == "ok" else want
            ok = sorted(got) == sorted(wantd) and (kind == "ok" or all(got[n] == (wantd[n][0], sorted(wantd[n][1])) for n in wantd))
            if ok and len(out) == len(got):
                ctx.holds(rid, site, f"-> {got}")
            else:
                ctx.violated(rid, jm, f"measurement join [{lab}]", "the joined measurements are not the ones the join mode prescribes (each measurement once, POI kept, parameter settings united)", expected=str(wantd), found=str(got))
        except RaisedInFragment as e:
            if kind == "raise" and e.exc_name.split(".")[-1] == "InvalidWorkspaceOperation":
                ctx.holds(rid, site, "refused with InvalidWorkspaceOperation")
            elif kind == "raise":
                ctx.violated(rid, jm, f"measurement join [{lab}]", f"refused with {e.exc_name}, not InvalidWorkspaceOperation")
            else:
                ctx.violated(rid, jm, f"measurement join [{lab}]", f"compatible measurements are refused with {e.exc_name}")
        except (Undecided, KeyError, TypeError, ValueError, IndexError, AttributeError) as e:
            ctx.unrecognised(rid, jm, f"measurement join [{lab}]", f"not interpretable: {type(e).__name__}: {e}")


def _counter(items):
    d = {}
    for x in items:
        d[x] = d.get(x, 0) + 1
    from ..alg import Poly
    return {k: Poly.const(v) for k, v in d.items()}


def _ctor_deepcopies(init):
    """Workspace.__init__ rebinds `spec` to copy.deepcopy(spec) on every path before any other use."""
    g = CFG.build(init.node.body) if "CFG" in globals() else None
    tops = A.strip_docstring(init.node.body)
    for st in tops:
        if isinstance(st, ast.Assign) and any(isinstance(t, ast.Name) and t.id == "spec" for t in st.targets) and isinstance(st.value, ast.Call) and A.call_attr(st.value) == "deepcopy":
            return True
        if any(isinstance(n, ast.Name) and n.id == "spec" for n in ast.walk(st)):
            return False
    return False


def _shared_containers(a, b):
    """Paths of list/dict objects of `a` that ARE (identity) objects reachable from `b`."""
    ids = {}

    def collect(x, path):
        if isinstance(x, (list, dict)):
            ids[id(x)] = path
            for k_, v_ in (x.items() if isinstance(x, dict) else enumerate(x)):
                collect(v_, f"{path}[{k_!r}]")

    collect(b, "input")
    out = []

    def walk(x, path):
        if isinstance(x, (list, dict)):
            if id(x) in ids:
                out.append(f"{path} is {ids[id(x)]}")
                return
            for k_, v_ in (x.items() if isinstance(x, dict) else enumerate(x)):
                walk(v_, f"{path}[{k_!r}]")

    walk(a, "result")
    return out


def _object_history(ctx, rid, repo):
    import copy as _copy
    from ..alg import PyFunc, RaisedInFragment, Undecided, to_poly
    from ..objmodel import Instance, World, dict_base
    at = Poly.atom
    wsc = repo.cls(WS, "Workspace")
    mix = repo.cls("src/pyhf/mixins.py", "_ChannelSummaryMixin")
    errs = (Undecided, KeyError, TypeError, ValueError, IndexError, AttributeError)

    def spec(tag, meas):
        return {"channels": [{"name": "SR", "samples": [{"name": "bkg", "data": [at(f"{tag}b0"), at(f"{tag}b1")], "modifiers": [{"name": "mu", "type": "normfactor", "data": None}]}]}],
                "observations": [{"name": "SR", "data": [at(f"{tag}o0"), at(f"{tag}o1")]}],
                "measurements": [{"name": meas, "config": {"poi": "mu", "parameters": []}}], "version": "1.0.0"}

    def show(v):
        if isinstance(v, (list, tuple)):
            return [show(x) for x in v]
        if isinstance(v, dict):
            return {k: show(x) for k, x in v.items()}
        return v if v is None or isinstance(v, (str, bool)) else str(to_poly(v))

    try:
        w = World({"__strict__": True, "deepcopy": lambda a, k: _deep(a[0]), "__isinstance__": _isinstance_of_modelled_class}, module_env={"log": Obj("log"), "schema": Obj("schema"), "exceptions": Obj("exceptions"), "copy": Obj("copy"), "jsonpatch": Obj("jsonpatch")})
        w.add_foreign_base("dict", dict_base())
        w.add_class(mix).add_class(wsc)
        m = repo.module(WS)
        for q, f_ in m.funcs.items():
            if "." not in q and q != "__dir__":
                w.add_func(f_)
        model = Obj("model", {"config": Obj("config", {"channels": ["SR"], "auxdata": [at("aux0")]}, closed=True)}, closed=True)
        left = w.new(wsc, [spec("L", "left_measurement")], {"validate": False})
        want_l = {"observations": {"SR": ["Lo0", "Lo1"]}, "measurement_names": ["left_measurement"], "data": ["Lo0", "Lo1"], "data+aux": ["Lo0", "Lo1", "aux0"]}
        want_r = {"observations": {"SR": ["Ro0", "Ro1"]}, "measurement_names": ["right_measurement"], "data": ["Ro0", "Ro1"], "data+aux": ["Ro0", "Ro1", "aux0"]}

        def state(obj):
            return {"observations": show(w.get_property(obj, "observations") if "observations" not in obj.attrs and False else _attr(w, obj, "observations")), "measurement_names": show(_attr(w, obj, "measurement_names")),
                    "data": show(w.call_method(obj, "data", [model], {"include_auxdata": False})), "data+aux": show(w.call_method(obj, "data", [model], {}))}

        s0 = state(left)
        if s0 != want_l:
            ctx.violated(rid, wsc.methods["__init__"], "first workspace of the process", "a freshly built workspace does not report its own observations / measurement names / data", expected=str(want_l), found=str(s0))
            return
        ctx.holds(rid, f"{WS}::Workspace [first object]", str(s0))
        right = w.new(wsc, [spec("R", "right_measurement")], {"validate": False})
        s_r, s_l = state(right), state(left)
        if s_r != want_r or s_l != want_l:
            ctx.violated(rid, wsc.methods["__init__"], "two workspaces with a common channel name in one process", "after a second workspace with the same channel name was built, one of the two objects reports the OTHER one's observations / measurement names / data: per-object state lives in a container shared by all Workspace objects (a class-level attribute written through self, a module-level table ...)", expected=f"left {want_l}; right {want_r}", found=f"left {s_l}; right {s_r}")
            return
        ctx.holds(rid, f"{WS}::Workspace [second object with the same channel name, same process]", "both objects keep their own observations, measurement names and data")
        model_history(ctx, rid, repo, w, wsc, left, show)
        before = (_copy.deepcopy(show(left.attrs.get("__payload__"))), _copy.deepcopy(show(right.attrs.get("__payload__"))))
        comb = w.call_func(wsc.methods["combine"], [PyFunc(lambda a, k: w.new(wsc, a, k), "Workspace"), left, right], {"join": "left outer", "validate": False})
        s_c = state(comb) if isinstance(comb, Instance) else None
        s_l2, s_r2 = state(left), state(right)
        after = (show(left.attrs.get("__payload__")), show(right.attrs.get("__payload__")))
        if s_l2 != want_l or s_r2 != want_r or before != after:
            ctx.violated(rid, wsc.methods["combine"], "combine(left, right, 'left outer'): the inputs afterwards", "combining two workspaces changes what one of the INPUT objects reports (its payload, observations, measurement names or data)", expected=f"left {want_l}; right {want_r}", found=f"left {s_l2}; right {s_r2}; payload unchanged: {before == after}")
        elif s_c is None or s_c["data"] != want_l["data"] or sorted(s_c["measurement_names"]) != ["left_measurement", "right_measurement"]:
            ctx.violated(rid, wsc.methods["combine"], "combine(left, right, 'left outer'): the result", "the combined workspace does not carry the left observation of the common channel and the measurements of both", expected=f"data {want_l['data']}, measurements of both", found=str(s_c))
        else:
            ctx.holds(rid, f"{WS}::Workspace.combine [left outer, common channel, real objects]", f"inputs untouched; result {s_c}")
    except RaisedInFragment as e:
        ctx.violated(rid, wsc, "Workspace object history", f"raises {e.exc_name} on well-formed workspaces")
    except errs as e:
        ctx.unrecognised(rid, wsc, "Workspace object history", f"not interpretable: {type(e).__name__}: {e}")


def model_history(ctx, rid, repo, w=None, wsc=None, ws=None, show=None):
    """Workspace.model() on ONE workspace object: default POI, a POI override, a POI-less request, then the default again --
    with Model as a recorder: every call hands Model the specification and options of THAT call, and the workspace's own
    payload is the same before and after (shared by C16.R7, C12.R12 and C20.R8)."""
    import copy as _copy
    from ..alg import PyFunc, RaisedInFragment, Undecided, to_poly
    from ..objmodel import World, dict_base
    at = Poly.atom
    errs = (Undecided, KeyError, TypeError, ValueError, IndexError, AttributeError)
    if w is None:
        try:
            w, wsc, ws, show = _one_workspace(repo)
        except RaisedInFragment as e:
            ctx.violated(rid, repo.cls(WS, "Workspace"), "Workspace construction", f"raises {e.exc_name} on a well-formed workspace")
            return
        except errs as e:
            ctx.unrecognised(rid, repo.cls(WS, "Workspace"), "Workspace construction", f"not interpretable: {type(e).__name__}: {e}")
            return
    mm = wsc.methods["model"]
    ctx.touch(mm)
    calls = []
    w.base["Model"] = lambda a, k: (calls.append((a[0] if a else None, dict(k))) or Obj("MODEL"))
    w.base["validate"] = lambda a, k: None
    w.ext = None
    _model_history_body(ctx, rid, w, ws, mm, calls, show, errs)


def _one_workspace(repo):
    from ..alg import to_poly
    from ..objmodel import World, dict_base
    at = Poly.atom
    if True:
        wsc = repo.cls(WS, "Workspace")
        mix = repo.cls("src/pyhf/mixins.py", "_ChannelSummaryMixin")
        w = World({"__strict__": True, "deepcopy": lambda a, k: _deep(a[0]), "__isinstance__": _isinstance_of_modelled_class}, module_env={"log": Obj("log"), "schema": Obj("schema"), "exceptions": Obj("exceptions"), "copy": Obj("copy"), "jsonpatch": Obj("jsonpatch")})
        w.add_foreign_base("dict", dict_base())
        w.add_class(mix).add_class(wsc)
        for q, f_ in repo.module(WS).funcs.items():
            if "." not in q and q != "__dir__":
                w.add_func(f_)
        spec = {"channels": [{"name": "SR", "samples": [{"name": "bkg", "data": [at("b0"), at("b1")], "modifiers": [{"name": "mu", "type": "normfactor", "data": None}, {"name": "other", "type": "normfactor", "data": None}]}]}],
                "observations": [{"name": "SR", "data": [at("o0"), at("o1")]}],
                "measurements": [{"name": "left_measurement", "config": {"poi": "mu", "parameters": [{"name": "mu", "bounds": [[at("lo"), at("hi")]]}, {"name": "sig_only", "inits": [at("sig_init")], "fixed": True}]}}], "version": "1.0.0"}
        ws = w.new(wsc, [spec], {"validate": False})

        def show(v):
            if isinstance(v, (list, tuple)):
                return [show(x) for x in v]
            if isinstance(v, dict):
                return {k: show(x) for k, x in v.items()}
            return v if v is None or isinstance(v, (str, bool)) else str(to_poly(v))
    return w, wsc, ws, show


def _model_history_body(ctx, rid, w, ws, mm, calls, show, errs):
    import copy as _copy
    from ..alg import RaisedInFragment
    try:
        payload0 = _copy.deepcopy(show(ws.attrs.get("__payload__")))
        default_poi = ws.attrs["__payload__"]["measurements"][0]["config"]["poi"]
        plan = [("first call, the measurement's POI", {}, default_poi), ("second call, poi_name='other'", {"poi_name": "other"}, "other"),
                ("third call, the measurement's POI again", {}, default_poi), ("fourth call, poi_name=None (a POI-less model)", {"poi_name": None}, None),
                ("fifth call, the measurement's POI again", {}, default_poi)]
        bad = None
        for lab, kw, want_poi in plan:
            n0 = len(calls)
            w.call_method(ws, "model", [], dict(kw))
            if len(calls) != n0 + 1:
                bad = f"{lab}: Model is constructed {len(calls) - n0} times"
                break
            mspec, mkw = calls[-1]
            if mkw.get("poi_name", "<absent>") != want_poi:
                bad = f"{lab}: the model is built with poi_name={mkw.get('poi_name', '<absent>')!r}; this call asks for {want_poi!r}"
                break
            in_model = {m_["name"] for ch_ in (mspec.get("channels") or []) for s_ in ch_.get("samples", []) for m_ in s_.get("modifiers", [])} if isinstance(mspec, dict) else set()
            relevant = lambda ps_: [p_ for p_ in (ps_ or []) if p_.get("name") in in_model]  # settings for parameters the model does not have are ignored by Model
            if show(mspec.get("channels") if isinstance(mspec, dict) else None) != payload0.get("channels") or show(relevant(mspec.get("parameters"))) != relevant(payload0["measurements"][0]["config"]["parameters"]):
                bad = f"{lab}: the specification handed to Model is not the workspace's channels and the measurement's parameter settings"
                break
            if show(ws.attrs.get("__payload__")) != payload0:
                bad = f"{lab}: the call changed the workspace itself (what it stores for the measurement): a later call, or json.dumps(workspace), sees the option of THIS call"
                break
        if not bad and any(p_.get("name") == "sig_only" for p_ in ws.attrs["__payload__"]["measurements"][0]["config"]["parameters"]):
            # the usual signal-patch workflow: the measurement already configures a parameter that only the PATCH brings into the model
            added = {"name": "signal", "data": [Poly.atom("s0"), Poly.atom("s1")], "modifiers": [{"name": "sig_only", "type": "normfactor", "data": None}]}

            def json_patch(a, k):
                def apply(a2, k2):
                    doc = a2[0]
                    if k2.get("in_place") is True:
                        tgt = doc
                    else:
                        tgt = {k_: _deep(v_) for k_, v_ in doc.items()}
                    tgt["channels"][0]["samples"].append(_deep(added))
                    return tgt
                return Obj("JsonPatch", {"apply": PyFunc(apply, "apply")}, closed=True)

            w.base["JsonPatch"] = json_patch
            w.ext = None
            n0 = len(calls)
            w.call_method(ws, "model", [], {"patches": [Obj("signal patch")]})
            w.base.pop("JsonPatch", None)
            w.ext = None
            mspec, mkw = calls[-1] if len(calls) == n0 + 1 else ({}, {})
            names_ = [p_.get("name") for p_ in (mspec.get("parameters") or [])] if isinstance(mspec, dict) else []
            smp_ = [s_["name"] for s_ in mspec["channels"][0]["samples"]] if isinstance(mspec, dict) and mspec.get("channels") else []
            if "signal" not in smp_:
                bad = "sixth call, with a signal patch: the patched sample does not reach the model"
            elif "sig_only" not in names_ or show([p_ for p_ in mspec["parameters"] if p_.get("name") == "sig_only"][0]) != {"name": "sig_only", "inits": ["sig_init"], "fixed": True}:
                bad = f"sixth call, with a signal patch: the measurement's settings for `sig_only` -- a parameter the patch brings into the model -- do not reach Model (parameter settings handed over: {names_}); the patched-in parameter silently gets its defaults"
            elif show(ws.attrs.get("__payload__")) != payload0:
                bad = "sixth call, with a signal patch: the patch was written into the workspace itself"
            if not bad:
                # a patch that adds a channel under a name the workspace already uses: the workspace hands Model what the patched document
                # says -- BOTH entries, in document order -- so that the model's own duplicate-name check decides; nothing on the way
                # may merge, key or drop entries by name
                twin = {"name": ws.attrs["__payload__"]["channels"][0]["name"], "samples": [{"name": "bkg", "data": [Poly.atom("t0")], "modifiers": []}]}

                def json_patch2(a, k):
                    def apply(a2, k2):
                        doc = a2[0]
                        tgt = doc if k2.get("in_place") is True else {k_: _deep(v_) for k_, v_ in doc.items()}
                        tgt["channels"].append(_deep(twin))
                        return tgt
                    return Obj("JsonPatch", {"apply": PyFunc(apply, "apply")}, closed=True)

                w.base["JsonPatch"] = json_patch2
                w.ext = None
                n0 = len(calls)
                w.call_method(ws, "model", [], {"patches": [Obj("patch adding a channel under a used name")]})
                w.base.pop("JsonPatch", None)
                w.ext = None
                mspec, mkw = calls[-1] if len(calls) == n0 + 1 else ({}, {})
                got_ = [(c_.get("name"), show(c_["samples"][0]["data"])) for c_ in (mspec.get("channels") or [])] if isinstance(mspec, dict) else None
                want_ = [(twin["name"], payload0["channels"][0]["samples"][0]["data"]), (twin["name"], ["t0"])]
                if got_ != want_:
                    bad = f"seventh call, with a patch that adds a second channel under a name already used: Model receives the channels {got_}, not the two entries of the patched document {want_}; its duplicate-name check never sees the collision and the inconsistent specification is accepted"
            if not bad:
                # ... and the same when the collision is in the workspace document itself (a workspace is not required to be a valid model)
                doc2 = _deep(ws.attrs["__payload__"])
                doc2 = {k_: v_ for k_, v_ in doc2.items()}
                doc2["channels"] = [_deep(doc2["channels"][0]), _deep(twin)]
                doc2["observations"] = [_deep(doc2["observations"][0])]
                ws2 = w.new(ws.cls, [doc2], {"validate": False})
                n0 = len(calls)
                w.call_method(ws2, "model", [], {})
                mspec, mkw = calls[-1] if len(calls) == n0 + 1 else ({}, {})
                got_ = [(c_.get("name"), show(c_["samples"][0]["data"])) for c_ in (mspec.get("channels") or [])] if isinstance(mspec, dict) else None
                if got_ != want_:
                    bad = f"a workspace whose document lists two channels under one name: Model receives the channels {got_}, not the two entries of the document {want_}; its duplicate-name check never sees the collision and the inconsistent specification is accepted as a model without the dropped channel"
        if bad:
            ctx.violated(rid, mm, "Workspace.model() history on one workspace object", bad, expected="every call: Model(channels, measurement parameters, the POI this call asks for); workspace payload unchanged", found=bad)
        else:
            ctx.holds(rid, f"{WS}::Workspace.model [calls on one object: default POI, override, default, POI-less, default, a signal patch, a patch adding a channel under a used name]", "each call builds from this call's options and patches, with the measurement's settings for patched-in parameters; the workspace payload is unchanged")
    except RaisedInFragment as e:
        ctx.violated(rid, mm, "Workspace.model() history", f"raises {e.exc_name} on a well-formed workspace")
    except errs as e:
        ctx.unrecognised(rid, mm, "Workspace.model() history", f"not interpretable: {type(e).__name__}: {e}")
    finally:
        w.base.pop("Model", None)
        w.ext = None


def workspace_verbatim(ctx, rid, repo):
    """A Workspace IS the document it was built from: Workspace.__init__ (through the channel-summary mixin into dict), interpreted
    on a document whose channels, samples and measurements are NOT listed in name order, stores exactly that document -- same
    keys, same values, same list orders (digests, JSON patches addressed by index and json.dumps all see the list order) -- and
    leaves the caller's document untouched (shared by C16.R7, C17.R9)."""
    import copy as _copy
    from ..alg import RaisedInFragment, Undecided, to_poly
    from ..objmodel import World, dict_base
    at = Poly.atom
    wsc = repo.cls(WS, "Workspace")
    errs = (Undecided, KeyError, TypeError, ValueError, IndexError, AttributeError)

    def show(v):
        if isinstance(v, (list, tuple)):
            return [show(x) for x in v]
        if isinstance(v, dict):
            return {k: show(x) for k, x in v.items()}
        return v if v is None or isinstance(v, (str, bool)) else str(to_poly(v))

    def smp(name, tag, n):
        return {"name": name, "data": [at(f"{tag}{j}") for j in range(n)], "modifiers": [{"name": "zz_last", "type": "normfactor", "data": None}, {"name": "aa_first", "type": "normfactor", "data": None}]}

    doc = {"channels": [{"name": "SR", "samples": [smp("sig", "Ss", 2), smp("bkg", "Sb", 2)]}, {"name": "CR", "samples": [smp("bkg", "Cb", 3)]}, {"name": "VR", "samples": [smp("top", "Vt", 1)]}],
           "observations": [{"name": "VR", "data": [at("Vo0")]}, {"name": "SR", "data": [at("So0"), at("So1")]}, {"name": "CR", "data": [at("Co0"), at("Co1"), at("Co2")]}],
           "measurements": [{"name": "zeta", "config": {"poi": "zz_last", "parameters": []}}, {"name": "alpha", "config": {"poi": "aa_first", "parameters": []}}], "version": "1.0.0"}
    try:
        w = World({"__strict__": True, "deepcopy": lambda a, k: _deep(a[0]), "__isinstance__": _isinstance_of_modelled_class}, module_env={"log": Obj("log"), "schema": Obj("schema"), "exceptions": Obj("exceptions"), "copy": Obj("copy"), "jsonpatch": Obj("jsonpatch")})
        w.add_foreign_base("dict", dict_base())
        w.add_class(repo.cls("src/pyhf/mixins.py", "_ChannelSummaryMixin")).add_class(wsc)
        before = _copy.deepcopy(show(doc))
        ws = w.new(wsc, [doc], {"validate": False})
        stored = show(ws.attrs.get("__payload__"))
        if show(doc) != before:
            ctx.violated(rid, wsc.methods["__init__"], "the caller's document", "constructing a Workspace changes the document the caller passed", expected="untouched", found="changed")
        elif stored != before:
            diff = next((k for k in before if stored.get(k) != before[k]), "?") if isinstance(stored, dict) else "?"
            ctx.violated(rid, wsc.methods["__init__"], f"the stored document [{diff}]", f"the Workspace does not hold the document it was built from verbatim: `{diff}` differs (a list re-ordered, an entry added or dropped) -- its digest, its JSON serialisation and every index-addressed JSON patch applied to it then differ from the caller's document", expected=str(before.get(diff))[:150], found=str(stored.get(diff) if isinstance(stored, dict) else stored)[:150])
        else:
            ctx.holds(rid, f"{WS}::Workspace.__init__ [3 channels, samples, modifiers, observations and measurements listed out of name order]", "the stored document equals the caller's, list orders included; the caller's document is untouched")
    except RaisedInFragment as e:
        ctx.violated(rid, wsc, "Workspace construction", f"raises {e.exc_name} on a well-formed document")
    except errs as e:
        ctx.unrecognised(rid, wsc, "Workspace construction", f"not interpretable: {type(e).__name__}: {e}")


def _isinstance_of_modelled_class(v, cl):
    """isinstance(v, <modelled class>) for instances of the object model (by class name along the bases)"""
    from ..objmodel import Instance
    if not isinstance(v, Instance):
        return False
    want = getattr(cl, "name", None)
    seen, todo = set(), [v.cls]
    while todo:
        c_ = todo.pop()
        if c_.name == want:
            return True
        seen.add(c_.name)
        for b in c_.base_names():
            b_ = (b or "").split(".")[-1]
            if b_ == want:
                return True
    return False


def _attr(w, obj, name):
    """instance attribute, else the class-level one (as attribute lookup does)"""
    if name in obj.attrs:
        return obj.attrs[name]
    for cn in w.mro_names(obj.cls):
        if name in w.class_state.get(cn, {}):
            return w.class_state[cn][name]
    from ..alg import Undecided
    raise Undecided(f"attribute {name} not set")


def _deep(v):
    """copy.deepcopy over the interpreter's values: containers copied, scalars / polynomials shared (immutable)"""
    from ..objmodel import Instance
    if isinstance(v, dict):
        return {k: _deep(x) for k, x in v.items()}
    if isinstance(v, list):
        return [_deep(x) for x in v]
    if isinstance(v, tuple):
        return tuple(_deep(x) for x in v)
    if isinstance(v, Instance):
        n = Instance(v.cls)
        n.attrs.update({k: _deep(x) for k, x in v.attrs.items()})
        return n
    return v


def _schema_keys(ctx, rid, repo, ws):
    import json
    files = sorted((repo.root / "src" / "pyhf" / "schemas").glob("*/defs.json"))
    if not files:
        ctx.unrecognised(rid, ws, "schemas/*/defs.json", "no shipped schema definitions found")
        return
    reads = {}
    names = {"self", "left", "right", "workspace", "spec"}
    for m in ws.methods.values():
        for n in ast.walk(m.node):
            if isinstance(n, ast.Subscript) and isinstance(n.ctx, ast.Load) and isinstance(n.value, ast.Name) and n.value.id in names and isinstance(A.const_value(n.slice), str):
                if n.value.id == "spec" and m.name != "__init__":
                    continue
                reads.setdefault(A.const_value(n.slice), []).append((m, n))
    for fpath in files:
        rel = fpath.relative_to(repo.root).as_posix()
        ctx.files_analysed.add(rel)
        try:
            wsdef = json.loads(fpath.read_text(encoding="utf-8"))["definitions"]["workspace"]
            required, props = set(wsdef.get("required", [])), set(wsdef.get("properties", {}))
        except (KeyError, TypeError, ValueError) as e:
            ctx.unrecognised(rid, ws, f"{rel}::definitions.workspace", f"not where this rule looks for it: {type(e).__name__}: {e}")
            continue
        for key in sorted(reads):
            m, n = reads[key][0]
            site = f"{WS}::Workspace reads ['{key}'] unconditionally ({len(reads[key])} site(s), first in {m.name}) x {rel}::definitions.workspace.required"
            if key in required:
                ctx.holds(rid, site, "required by the schema")
            elif key in props:
                ctx.violated(rid, m, f"workspace['{key}'] in {m.name}", f"the schema ({rel}) accepts a workspace without `{key}` (it is not in `required`), but `{m.name}` -- and {len(reads[key]) - 1} other site(s) -- reads it with a plain subscript: a schema-valid workspace evaluates fine and then makes the operation fail with KeyError", expected=f"`{key}` in definitions.workspace.required (or read with .get)", found=f"required = {sorted(required)}", node=n)
            else:
                ctx.unrecognised(rid, m, f"workspace['{key}']", f"`{key}` is read from a workspace but the schema's workspace definition does not know it")
