"""C09 -- upper limits solve CLs(mu) = level at the *requested* level.

Decided statically (necessary conditions only):
  R1 FWD   data/model/scan/level/return_results/**kwargs reach both scan modes
  R2 DEP   inside toms748_scan `level` reaches every root-finder call, both
           bracket-extension predicates and the bracket chooser; tolerances
           reach xtol/rtol; every root uses the cached hypotest evaluator which
           forwards data/model/options and asks for the expected set
  R3 PAIR  the grid interpolation reverses x-grid and values together and
           uses `level` as abscissa; `_interp` keeps numpy.interp's order
  R4 DEP   per-point results returned are the evaluated points and results
"""

from __future__ import annotations

import ast

from .. import astutil as A
from ..dep import Deps
from ..fwd import calls_to, check_forward
from ..loader import AnalysisError
from ..alg import Interp, Obj, Poly, Undecided, to_poly
from ..alg import fn as alg_fn

EXPLANATION = (
    "Structural necessary conditions of C09 decided on the source of infer/intervals: "
    "(R1) every parameter of upper_limit/upperlimit that the scan functions declare is forwarded on both "
    "arms; (R2) in toms748_scan the threshold flows into every toms748 call (args), both bracket-extension "
    "loop predicates and best_bracket, tolerances flow to xtol/rtol, and all roots use the cached hypotest "
    "closure with return_expected_set=True and the forwarded options; (R3) the grid interpolation reverses "
    "abscissa and ordinate together and evaluates at `level`; (R4) return_results hands back the scan points "
    "and the hypotest results themselves. NOT decided: that a root exists, root-finder accuracy, ordering of "
    "the expected band, any numeric value."
)
ASSUMPTIONS = [
    "scipy.optimize.toms748(f, a, b, args=...) passes args to f after the abscissa",
    "numpy.interp(x, xp, fp) requires increasing xp",
    "flow-insensitive dependence inside one function (over-approximates flows, so a reported drop is a real drop)",
]

UL = "src/pyhf/infer/intervals/upper_limits.py"
IV = "src/pyhf/infer/intervals/__init__.py"


# R2 / R3 know where `level`, the tolerances and the reversed grid are WRITTEN in the two scan functions; R6 (the automatic scan
# walked into a recording root finder, two scenarios) and R5 / R4 (the grid scan on symbolic curves) decide the same clauses from
# what the functions compute, whatever helper, argument order or options dictionary carries the values.
DEFER = [(["C09.R2"], ["C09.R6"]), (["C09.R3"], ["C09.R5", "C09.R4"]), (["C09.R1"], ["C09.R4", "C09.R5", "C09.R6"], "intervals/upper_limits.py")]  # the deprecated alias in intervals/__init__.py keeps its structural verdict


def run(ctx):
    repo = ctx.repo
    upper_limit = repo.func(UL, "upper_limit")
    lin = repo.func(UL, "linear_grid_scan")
    toms = repo.func(UL, "toms748_scan")
    for f in (upper_limit, lin, toms):
        ctx.touch(f)

    # ---------------- R1 ------------------------------------------------
    r1 = ctx.rule(
        "C09.R1",
        "FWD: every parameter of upper_limit (data, model, scan, level, return_results, **hypotest_kwargs) that a "
        "scan function declares is passed to it as a value derived from that parameter, on both the grid arm and "
        "the automatic (toms748) arm; the deprecated upperlimit forwards everything to upper_limit",
        "FWD", floor=8,
    )
    deps = Deps(upper_limit.node)
    n_sites = 0
    for callee in (lin, toms):
        sites = calls_to(upper_limit.node, {callee.name})
        if not sites:
            ctx.unrecognised(r1, upper_limit, upper_limit.node.name, f"no call to {callee.name} found (scan mode removed or renamed?)")
            continue
        for call in sites:
            n_sites += 1
            exc = {}
            if callee is toms:
                # the automatic arm needs the evaluated points from the callee whatever the caller's flag
                exc = {}
            check_forward(ctx, r1, upper_limit, call, callee, deps=deps, exceptions=exc)
    if repo.has_func(IV, "upperlimit"):
        dep_fn = repo.func(IV, "upperlimit")
        ctx.touch(dep_fn)
        sites = calls_to(dep_fn.node, {"upper_limit"})
        if not sites:
            ctx.unrecognised(r1, dep_fn, "upperlimit", "deprecated alias no longer calls upper_limit")
        for call in sites:
            check_forward(ctx, r1, dep_fn, call, upper_limit)

    # ---------------- R2 ------------------------------------------------
    r2 = ctx.rule(
        "C09.R2",
        "DEP: in toms748_scan `level` reaches args= of every toms748 call, both bracket-extension loop predicates "
        "and the bracket chooser; atol->xtol, rtol->rtol; the function minimised subtracts its level argument from "
        "the cached hypotest result; the cached evaluator calls hypotest(poi, data, model, return_expected_set=True, **opts)",
        "DEP", floor=8,
    )
    tdeps = Deps(toms.node)
    tcalls = calls_to(toms.node, {"toms748"})
    if len(tcalls) < 2:
        ctx.unrecognised(r2, toms, "toms748(...)", f"expected >=2 root-finder call sites (observed + expected band), found {len(tcalls)}")
    inner = {n.name: n for n in ast.walk(toms.node) if isinstance(n, ast.FunctionDef) and n is not toms.node}
    for call in tcalls:
        ctx.call_sites += 1
        kws = {k.arg: k.value for k in call.keywords if k.arg}
        site = f"{UL}::toms748_scan: {A.short(call, 70)}"
        args_kw = kws.get("args")
        objective = call.args[0] if call.args else None
        obj_fn = inner.get(objective.id) if isinstance(objective, ast.Name) else None
        # level must reach the objective: through args= or as a free variable of the objective closure
        if args_kw is not None and tdeps.depends_on(args_kw, "level"):
            ctx.holds(r2, site + " [level->args]")
        elif obj_fn is not None and "level" in _free_reads(obj_fn) :
            ctx.holds(r2, site + " [level free in objective]")
        else:
            ctx.violated(r2, toms, call, "the requested `level` does not reach this root-finder call (neither in args= nor captured by the objective)",
                         expected="args=(level, ...)", found=A.short(args_kw, 60) if args_kw is not None else "no args=", node=call)
        for tol, kw in (("atol", "xtol"), ("rtol", "rtol")):
            if tol in A.params_of(toms.node):
                v = kws.get(kw)
                if v is not None and tdeps.depends_on(v, tol):
                    ctx.holds(r2, site + f" [{tol}->{kw}]")
                else:
                    ctx.violated(r2, toms, call, f"tolerance parameter `{tol}` does not reach toms748({kw}=...)",
                                 expected=f"{kw}={tol}", found=A.short(v, 40) if v is not None else "absent", node=call)
        # bracket: positional 1,2 or *best_bracket(...)
        if obj_fn is None:
            ctx.unrecognised(r2, toms, call, "objective passed to toms748 is not a local closure")
    # objective closure(s): result minus its level argument, via the cached evaluator
    objs = {c.args[0].id for c in tcalls if c.args and isinstance(c.args[0], ast.Name)}
    cached_names = set()
    for nm in sorted(objs):
        fn = inner.get(nm)
        if fn is None:
            continue
        ps = A.params_of(fn)
        lvl = "level"
        rets = [n for n in ast.walk(fn) if isinstance(n, ast.Return) and n.value is not None]
        ok_all = True
        for r in rets:
            for leaf in _ifexp_leaves(r.value):
                if isinstance(leaf, ast.BinOp) and isinstance(leaf.op, ast.Sub) and lvl in A.names_loaded(leaf.right) and _calls_local(leaf.left, inner):
                    cached_names |= _calls_local(leaf.left, inner)
                    ctx.holds(r2, f"{UL}::toms748_scan.{nm}: {A.short(leaf, 60)}", "CLs(poi) - level")
                else:
                    ok_all = False
                    ctx.violated(r2, toms, leaf, f"objective `{nm}` does not return <cached hypotest result> - level on this arm",
                                 expected="f_cached(poi)[...] - level", found=A.short(leaf, 80), node=leaf)
        # index pairing: limit == 0 -> [0]; else [1][limit-1]
    # cached evaluator -> hypotest
    for nm in sorted(cached_names):
        fn = inner.get(nm)
        hcalls = calls_to(fn, {"hypotest"})
        if not hcalls:
            ctx.unrecognised(r2, toms, nm, "cached evaluator does not call hypotest")
        for hc in hcalls:
            _check_hypotest_call(ctx, r2, toms, hc, fn, "toms748_scan." + nm)
    if not cached_names and tcalls:
        ctx.unrecognised(r2, toms, "objective", "could not identify the cached evaluator used by the objective")
    # loop predicates
    whiles = [n for n in ast.walk(toms.node) if isinstance(n, ast.While)]
    if len(whiles) < 2:
        ctx.unrecognised(r2, toms, "while ...", f"expected two bracket-extension loops, found {len(whiles)}")
    for w in whiles:
        if "level" in A.names_loaded(w.test) or tdeps.depends_on(w.test, "level"):
            ctx.holds(r2, f"{UL}::toms748_scan: while {A.short(w.test, 70)}", "predicate compares with level")
        else:
            ctx.violated(r2, toms, w.test, "bracket-extension predicate does not involve the requested `level`",
                         expected="... < level / ... > level", found=A.short(w.test, 80), node=w)
    # bracket chooser
    for nm, fn in inner.items():
        if any(isinstance(c.func, ast.Name) and c.func.id == nm for c in A.calls_in(toms.node)) and nm not in objs and nm not in cached_names:
            # helper used by the scan (best_bracket)
            if _uses_results(fn):
                if "level" in _free_reads(fn) or "level" in A.params_of(fn):
                    ctx.holds(r2, f"{UL}::toms748_scan.{nm}", "bracket chooser subtracts level")
                else:
                    ctx.violated(r2, toms, fn.name, f"bracket chooser `{nm}` ranks cached results without reference to `level`",
                                 expected="value - level", found="level not read", node=fn)

    # ---------------- R3 ------------------------------------------------
    r3 = ctx.rule(
        "C09.R3",
        "PAIR: linear_grid_scan interpolates with _interp(level, curve, grid) where curve and grid are reversed "
        "together (both [::-1] or neither) and `level` is the abscissa; _interp passes (x, xp, fp) to numpy.interp in order",
        "PAIR", floor=2,
    )
    ldeps = Deps(lin.node)
    ic = calls_to(lin.node, {"_interp", "interp"})
    if not ic:
        ctx.unrecognised(r3, lin, "linear_grid_scan", "no interpolation call found")
    for call in ic:
        ctx.call_sites += 1
        if len(call.args) < 3:
            ctx.unrecognised(r3, lin, call, "interpolation call is not positional (x, xp, fp)")
            continue
        x, xp, fp = call.args[:3]
        if not ldeps.depends_on(x, "level"):
            ctx.violated(r3, lin, call, "interpolation abscissa does not depend on `level`", expected="_interp(level, ...)", found=A.short(x, 40), node=call)
        else:
            ctx.holds(r3, f"{UL}::linear_grid_scan: abscissa {A.short(x, 30)}")
        rx, rf = _is_reversed(xp), _is_reversed(fp)
        if rx == rf:
            ctx.holds(r3, f"{UL}::linear_grid_scan: {A.short(call, 70)}", f"both reversed={rx}")
        else:
            ctx.violated(r3, lin, call, "x-grid and curve values are not reversed together (numpy.interp needs an increasing xp paired element-wise with fp)",
                         expected="curve[::-1], scan[::-1]", found=f"{A.short(xp, 40)}, {A.short(fp, 40)}", node=call)
        # the ordinate must BE the scanned points (reversed / converted), not a grid recomputed from them
        try:
            opaque = lambda nm: (lambda a, k: alg_fn(nm, *[to_poly(x) if not isinstance(x, (list, tuple)) else Poly.atom("SEQ") for x in a]))
            ext = {"linspace": opaque("linspace"), "arange": opaque("arange"), "sorted": opaque("sorted"), "sort": opaque("sort"), "unique": opaque("unique"), "flip": lambda a, k: a[0], "reversed": lambda a, k: a[0], "len": opaque("len")}
            env = {"scan": Poly.atom("SCAN"), "results": Poly.atom("RESULTS"), "level": Poly.atom("LEVEL"), "np": Obj("np"), "tb": Obj("tbh")}
            it = Interp(env, {}, {}, externals=ext)
            pmx = A.parent_map(lin.node)
            for st in A.strip_docstring(lin.node.body):
                if st.lineno >= A.stmt_of(call, pmx).lineno:
                    break
                if isinstance(st, ast.Assign) and not any(A.call_attr(c) in ("hypotest", "concatenate", "astensor") for c in A.calls_in(st.value)):
                    try:
                        it.exec(st)
                    except Undecided:
                        pass
            fv = to_poly(it.eval(fp))
            if fv == Poly.atom("SCAN"):
                ctx.holds(r3, f"{UL}::linear_grid_scan: ordinate", "the scanned POI values themselves")
            else:
                ctx.violated(r3, lin, call, f"the POI axis of the inverse interpolation is recomputed ({fv}) instead of being the scanned points: for a non-uniform or unsorted scan the limit is read off the wrong abscissae", expected="scan (reversed together with the curve)", found=str(fv), node=call)
        except Undecided as e:
            ctx.unrecognised(r3, lin, fp, f"ordinate not interpretable: {e}")
        # xp must derive from hypotest results, fp from scan
        if not ldeps.depends_on(fp, "scan"):
            ctx.violated(r3, lin, call, "ordinate of the inverse interpolation does not derive from `scan`", expected="scan[::-1]", found=A.short(fp, 40), node=call)
        if not _depends_on_call(ldeps, xp, "hypotest", lin.node):
            ctx.violated(r3, lin, call, "abscissa grid of the inverse interpolation does not derive from the hypotest results", expected="CLs curve", found=A.short(xp, 40), node=call)
    if repo.has_func(UL, "_interp"):
        fi = repo.func(UL, "_interp")
        ctx.touch(fi)
        ps = [p for p in A.params_of(fi.node)]
        for c in calls_to(fi.node, {"interp"}):
            order = []
            for a in c.args[:3]:
                nm = sorted(A.names_loaded(a) & set(ps))
                order.append(nm[0] if len(nm) == 1 else None)
            if order == ps[:3]:
                ctx.holds(r3, f"{UL}::_interp: {A.short(c, 60)}", "argument order preserved")
            else:
                ctx.violated(r3, fi, c, "_interp does not pass (x, xp, fp) to numpy.interp in that order", expected=", ".join(ps[:3]), found=str(order), node=c)
    for hc in calls_to(lin.node, {"hypotest"}):
        _check_hypotest_call(ctx, r3, lin, hc, lin.node, "linear_grid_scan", comp_var=True)

    r5 = ctx.rule(
        "C09.R5",
        "GRID (interpreted): linear_grid_scan on a 4-point grid of symbolic POI values with recorded hypotest results "
        "(observed curve crossing the level LATER than the +2 sigma band): hypotest is evaluated once per grid point "
        "with the caller's data, model and options; each of the six curves is inverted by interp(level, ALL of its "
        "values, ALL grid points), reversed together; with return_results the third element is (the grid, the results)",
        "GRID", floor=2,
    )
    r6 = ctx.rule(
        "C09.R6",
        "AUTO (interpreted): upper_limit without a grid, down to toms748_scan: every hypotest evaluation receives the "
        "caller's data, model and ALL caller options (par_bounds, test_stat, calctype ...); the observed root is "
        "bracketed by the POI bounds and solved for (level, 0), the expected ones for (level, 1..5); a SECOND call after "
        "the data list was refilled in place evaluates hypotest afresh on the current data",
        "AUTO", floor=2,
    )
    _interpreted(ctx, r5, r6, repo)

    # ---------------- R4 ------------------------------------------------
    r4 = ctx.rule(
        "C09.R4",
        "RESULTS (interpreted): with return_results the third element is (points, results) with as many results as points and "
        "results[i] the hypothesis-test result AT points[i] -- for a grid with a repeated point through upper_limit and "
        "linear_grid_scan directly, and for the automatic scan; without return_results two elements are returned",
        "RESULTS", floor=4,
    )
    _results_interpreted(ctx, r4, repo)

    r7 = ctx.rule(
        "C09.R7",
        "TOY-BAND (interpreted): the expected set the toy calculator feeds the scan runs from -2 sigma to +2 sigma like the "
        "asymptotic one: ToyCalculator.expected_pvalues, with the per-toy p-values and the backend's percentile as recorders, "
        "returns for each of CLsb / CLb / CLs, at position j, the 100*Phi(j-2) percentile (2.28, 15.87, 50, 84.13, 97.72) over "
        "the background-only toys of that kind's p-value -- taken along the toy axis",
        "BAND", floor=1,
    )
    _toy_band(ctx, r7, repo)


# ----------------------------------------------------------------------
def _free_reads(fn):
    """Names read in fn that are not its parameters nor assigned locally."""
    params = set(p.lstrip("*") for p in A.params_of(fn))
    assigned = set()
    for n in ast.walk(fn):
        if isinstance(n, ast.Name) and isinstance(n.ctx, ast.Store):
            assigned.add(n.id)
    reads = {n.id for n in ast.walk(fn) if isinstance(n, ast.Name) and isinstance(n.ctx, ast.Load)}
    return reads - params - assigned


def _ifexp_leaves(e):
    if isinstance(e, ast.IfExp):
        return _ifexp_leaves(e.body) + _ifexp_leaves(e.orelse)
    return [e]


def _calls_local(e, inner):
    return {c.func.id for c in A.calls_in(e) if isinstance(c.func, ast.Name) and c.func.id in inner}


def _uses_results(fn):
    # a helper that reads the shared cache of hypotest results
    return "cache" in _free_reads(fn)


def _is_reversed(e):
    if isinstance(e, ast.Subscript) and isinstance(e.slice, ast.Slice):
        st = e.slice.step
        if st is not None and A.const_value(st) == -1 and e.slice.lower is None and e.slice.upper is None:
            return True
    for c in A.calls_in(e):
        if A.call_attr(c) in ("reversed", "flip"):
            return True
    return False


def _depends_on_call(deps: Deps, expr, callee_name, fn_node):
    """expr depends (transitively) on a value produced by a call to callee_name."""
    def has(e):
        return any((A.call_name(c) or "").split(".")[-1] == callee_name for c in A.calls_in(e))
    if has(expr):
        return True
    for nm in deps.roots_of(expr):
        for d in deps.defs.get(nm, []):
            if has(d):
                return True
    return False


def _check_hypotest_call(ctx, rid, owner, hc, fn, label, comp_var=False):
    ctx.call_sites += 1
    site = f"{UL}::{label}: {A.short(hc, 70)}"
    pos = [A.short(a, 30) for a in hc.args]
    kws = {k.arg: k.value for k in hc.keywords if k.arg}
    stars = [k.value for k in hc.keywords if k.arg is None]
    ok = True
    if len(hc.args) < 3 or not (isinstance(hc.args[1], ast.Name) and hc.args[1].id == "data" and isinstance(hc.args[2], ast.Name) and hc.args[2].id == "model"):
        ok = False
        ctx.violated(rid, owner, hc, "hypotest is not called as hypotest(<poi>, data, model, ...)", expected="hypotest(poi, data, model, ...)", found=", ".join(pos), node=hc)
    v = kws.get("return_expected_set")
    if v is None or A.const_value(v) is not True:
        ok = False
        ctx.violated(rid, owner, hc, "hypotest is not asked for the expected band (return_expected_set=True) although the scan indexes it", expected="return_expected_set=True", node=hc)
    if not any("hypotest_kwargs" in A.names_loaded(s) for s in stars):
        ok = False
        ctx.violated(rid, owner, hc, "caller's hypotest options (**hypotest_kwargs) are not forwarded to hypotest", expected="**hypotest_kwargs", node=hc)
    if ok:
        ctx.holds(rid, site, "poi, data, model, return_expected_set=True, **hypotest_kwargs")


def _mk_world(repo, region, rec, cls_of):
    """World for the scan functions: recording hypotest (its result carries the point it was evaluated at), numpy.interp
    and toms748 as recorders, numpy.unique by the region's numeric values."""
    from .. import listnp
    from ..alg import Closure
    from ..objmodel import World
    at = Poly.atom
    if True:
        ext = listnp.externals()

        def hypotest(a, k):
            poi = to_poly(a[0])
            tag = str(poi)
            rec["hypotest"].append({"poi": tag, "data": a[1] if len(a) > 1 else k.get("data"), "data_content": [str(to_poly(x)) for x in (a[1] if len(a) > 1 else [])] if isinstance(a[1] if len(a) > 1 else None, list) else None, "model": a[2] if len(a) > 2 else k.get("model"), "kw": dict(k)})
            vals = cls_of(poi)
            names = [f"cls{j}<{tag}>" for j in range(6)]
            for n_, v_ in zip(names, vals):
                region[n_] = v_
            return (at(names[0]), [at(n_) for n_ in names[1:]])

        def np_interp(a, k):
            rec["interp"].append(([str(to_poly(a[0]))], [str(to_poly(x)) for x in a[1]], [str(to_poly(x)) for x in a[2]]))
            return at(f"LIMIT{len(rec['interp']) - 1}")

        def toms748(a, k):
            f, lo, hi = a[0], a[1], a[2]
            args = list(k.get("args", ()))
            try:
                lo_value, hi_value = to_poly(lo).evalf(region), to_poly(hi).evalf(region)
            except Undecided:
                lo_value = hi_value = None
            rec["toms748"].append({"bracket": (str(to_poly(lo)), str(to_poly(hi))), "lo_value": lo_value, "hi_value": hi_value, "args": [str(to_poly(x)) for x in args], "xtol": k.get("xtol"), "rtol": k.get("rtol")})
            if isinstance(f, Closure):
                for x in (lo, hi, (to_poly(lo) + to_poly(hi)) / 2, (to_poly(lo) * 3 + to_poly(hi)) / 4):  # a root finder evaluates the ends, then interior points: not in increasing order
                    n0 = len(rec["hypotest"])
                    fv_ = f.interp.call_function(f.node, [x] + args, {})
                    rec["toms748"][-1].setdefault("f_values", []).append((str(to_poly(x)), fv_))
                    for h in rec["hypotest"][n0:]:
                        if h["poi"] != str(to_poly(x)):
                            rec.setdefault("moved", []).append((str(to_poly(x)), h["poi"]))
            return at(f"ROOT{len(rec['toms748']) - 1}")

        def num(v):
            return to_poly(v).evalf(region)

        def arg_best(a, k, best):
            vals = [num(x) for x in a[0]]
            if not vals:
                from ..alg import _PyRaise
                raise _PyRaise("ValueError")  # numpy: attempt to get argmin/argmax of an empty sequence
            return Poly.const(vals.index(best(vals)))

        ext.update({
            "hypotest": hypotest, "interp": np_interp, "toms748": toms748,
            "get_backend": lambda a, k: (Obj("tb"), None),
            "any": lambda a, k: any((x if isinstance(x, bool) else Interp({}, {}, region).truth(x)) for x in listnp._flatten(a[0])),
            "argmin": lambda a, k: arg_best(a, k, min), "argmax": lambda a, k: arg_best(a, k, max),
        })
        menv = {"np": Obj("np"), "log": Obj("log")}
        for st_ in repo.module(UL).tree.body:  # module-level containers are state shared between calls
            if isinstance(st_, ast.Assign) and len(st_.targets) == 1 and isinstance(st_.targets[0], ast.Name):
                v_ = st_.value
                if (isinstance(v_, ast.Dict) and not v_.keys) or (isinstance(v_, ast.Call) and not v_.args and (A.call_attr(v_) or "").lower().endswith(("dict", "dictionary"))):
                    menv[st_.targets[0].id] = {}
                elif isinstance(v_, (ast.List, ast.Set)) and not v_.elts:
                    menv[st_.targets[0].id] = []
        def unique(a, k):
            vals = listnp._flatten(a[0]) if isinstance(a[0], (list, tuple)) else [a[0]]
            seen_, out_ = set(), []
            for v in sorted(vals, key=lambda v: num(v)):
                if num(v) not in seen_:
                    seen_.add(num(v))
                    out_.append(v)
            return listnp.T(out_)

        ext["unique"] = unique
        w = World(ext, region=region, module_env=menv)
        for q, f in repo.module(UL).funcs.items():
            if "." not in q:
                w.add_func(f)
        return w


def _interpreted(ctx, r5, r6, repo):
    from fractions import Fraction as F_
    from .. import listnp
    from ..alg import AutoRegion, Closure, NotHandled, PyFunc
    from ..objmodel import World
    lin, toms, ul = repo.func(UL, "linear_grid_scan"), repo.func(UL, "toms748_scan"), repo.func(UL, "upper_limit")
    at = Poly.atom
    errs = (Undecided, KeyError, TypeError, ValueError, IndexError, AttributeError)

    def mk_world(region, rec, cls_of):
        return _mk_world(repo, region, rec, cls_of)

    # ---------------------------------------------------------------- grid
    obs_curve = {0: F_(9, 10), 1: F_(1, 2), 2: F_(1, 5), 3: F_(1, 100)}
    band = {0: [F_(4, 5), F_(3, 4), F_(7, 10), F_(3, 5), F_(1, 2)], 1: [F_(2, 5), F_(3, 10), F_(1, 5), F_(1, 10), F_(1, 25)], 2: [F_(1, 10), F_(2, 25), F_(3, 50), F_(1, 50), F_(1, 100)], 3: [F_(1, 200), F_(1, 250), F_(1, 300), F_(1, 400), F_(1, 1000)]}
    for rr in (True, False):
        rec = {"hypotest": [], "interp": [], "toms748": []}
        region = AutoRegion()
        for i in range(4):
            region[f"x{i}"] = F_(i)
        region["LEVEL"] = F_(1, 20)

        def cls_of(poi, region=region):
            i = int(poi.evalf(region))
            return [obs_curve[i]] + band[i]

        site = f"{UL}::linear_grid_scan [interpreted, return_results={rr}]"
        try:
            w = mk_world(region, rec, cls_of)
            DATA, MODEL = Obj("DATA"), Obj("MODEL")
            scan = listnp.T([at(f"x{i}") for i in range(4)])
            out = w.call_func(lin, [DATA, MODEL, scan, at("LEVEL"), rr], {"test_stat": "q", "par_bounds": Obj("PB")})
            probs = []
            if [h["poi"] for h in rec["hypotest"]] != [f"x{i}" for i in range(4)]:
                probs.append(f"hypotest evaluated at {[h['poi'] for h in rec['hypotest']]}, the grid is x0..x3")
            for h in rec["hypotest"]:
                if h["data"] is not DATA or h["model"] is not MODEL or h["kw"].get("return_expected_set") is not True or h["kw"].get("test_stat") != "q" or getattr(h["kw"].get("par_bounds"), "name", None) != "PB":
                    probs.append(f"hypotest at {h['poi']} does not receive the caller's data, model and options (got options {sorted(h['kw'])})")
                    break
            if len(rec["interp"]) != 6:
                probs.append(f"{len(rec['interp'])} interpolations, 6 curves")
            for idx, (x, xp, fp) in enumerate(rec["interp"]):
                want_xp = [f"cls{idx}<x{i}>" for i in (3, 2, 1, 0)]
                want_fp = [f"x{i}" for i in (3, 2, 1, 0)]
                fwd = (xp == want_xp[::-1] and fp == want_fp[::-1])  # increasing curves would be fine un-reversed; CLs falls
                if x != ["LEVEL"] or not (xp == want_xp and fp == want_fp):
                    probs.append(f"curve {idx}: interp({x}, {xp}, {fp}); every grid point and every value of that curve must enter, reversed together" + (" (not reversed: numpy.interp needs increasing xp)" if fwd else ""))
                    break
            if rr:
                ok3 = isinstance(out, (tuple, list)) and len(out) == 3 and isinstance(out[2], (tuple, list)) and len(out[2]) == 2 and [str(to_poly(x)) for x in out[2][0]] == [f"x{i}" for i in range(4)] and len(out[2][1]) == 4
                if not ok3:
                    probs.append("with return_results the third element is not (the grid, the per-point results)")
            elif not (isinstance(out, (tuple, list)) and len(out) == 2):
                probs.append("without return_results the result is not (observed, expected)")
            if isinstance(out, (tuple, list)) and len(out) >= 2 and not (str(to_poly(out[0])) == "LIMIT0" and [str(to_poly(x)) for x in out[1]] == [f"LIMIT{j}" for j in range(1, 6)]):
                probs.append("observed / expected limits are not the interpolations of curve 0 / curves 1..5")
            if probs:
                ctx.violated(r5, lin, f"grid scan [return_results={rr}]", "the grid scan does not invert every CLs curve over the whole user-supplied grid at the caller's level with the caller's options: " + probs[0], found=f"{len(probs)} deviation(s)")
            else:
                ctx.holds(r5, site, "4 hypotests with the caller's inputs; 6 inversions over all 4 points; layout")
        except errs as e:
            ctx.unrecognised(r5, lin, f"linear_grid_scan [return_results={rr}]", f"not interpretable: {type(e).__name__}: {e}")
    # ---------------------------------------------------------------- the grid arm THROUGH upper_limit (what a user calls)
    for rr in (True, False):
        rec = {"hypotest": [], "interp": [], "toms748": []}
        region = AutoRegion()
        for i in range(4):
            region[f"x{i}"] = F_(i)
        region["LEVEL"] = F_(1, 5)  # not the default level

        def cls_of2(poi, region=region):
            i = int(poi.evalf(region))
            return [obs_curve[i]] + band[i]

        try:
            w = mk_world(region, rec, cls_of2)
            DATA, MODEL = Obj("DATA"), Obj("MODEL")
            scan = listnp.T([at(f"x{i}") for i in range(4)])
            out = w.call_func(ul, [DATA, MODEL], {"scan": scan, "level": at("LEVEL"), "return_results": rr, "test_stat": "q", "par_bounds": Obj("PB")})
            probs = []
            if [h["poi"] for h in rec["hypotest"]] != [f"x{i}" for i in range(4)]:
                probs.append(f"hypotest evaluated at {[h['poi'] for h in rec['hypotest']]}, the grid is x0..x3")
            for h in rec["hypotest"]:
                if h["data"] is not DATA or h["model"] is not MODEL or h["kw"].get("test_stat") != "q" or getattr(h["kw"].get("par_bounds"), "name", None) != "PB":
                    probs.append(f"the hypothesis test at {h['poi']} does not receive the caller's data, model and options (got options {sorted(h['kw'])})")
                    break
            if any(x != ["LEVEL"] for x, _, _ in rec["interp"]) or len(rec["interp"]) != 6:
                probs.append(f"the curves are inverted at {sorted({str(x) for x, _, _ in rec['interp']})}, the caller asked for LEVEL ({len(rec['interp'])} inversions, 6 curves)")
            n_out = len(out) if isinstance(out, (tuple, list)) else 0
            if n_out != (3 if rr else 2):
                probs.append(f"{n_out} results returned, {'(observed, expected, (points, results))' if rr else '(observed, expected)'} asked for")
            elif rr and not (isinstance(out[2], (tuple, list)) and len(out[2]) == 2 and [str(to_poly(x)) for x in out[2][0]] == [f"x{i}" for i in range(4)] and len(out[2][1]) == 4):
                probs.append("the third element is not (the grid, the per-point results)")
            if probs:
                ctx.violated(r5, ul, f"upper_limit with a grid [return_results={rr}]", "upper_limit with a scan grid does not solve CLs = level for the caller's level, hypothesis test and data: " + probs[0], found=f"{len(probs)} deviation(s)")
            else:
                ctx.holds(r5, f"{UL}::upper_limit [grid, level 0.2, return_results={rr}]", "caller's data, model, options and level reach the grid scan; layout as asked")
        except errs as e:
            ctx.unrecognised(r5, ul, f"upper_limit with a grid [return_results={rr}]", f"not interpretable: {type(e).__name__}: {e}")
    # ---------------------------------------------------------------- automatic
    rec = {"hypotest": [], "interp": [], "toms748": []}
    region = AutoRegion()
    region.update({"LO": F_(0), "HI": F_(10), "LEVEL": F_(1, 20), "ATOL": F_(1, 100), "RTOL": F_(1, 100)})

    def cls_auto(poi, region=region):
        v = poi.evalf(region)
        if v < 1:
            return [F_(9, 10)] * 6
        if v > 5:
            return [F_(1, 1000)] * 6
        return [F_(1, 2)] * 6

    try:
        w = mk_world(region, rec, cls_auto)
        data_list = [at("d0"), at("d1")]
        cfg = Obj("config", {"poi_name": "mu"})
        MODEL = Obj("MODEL", {"config": cfg})
        w.base[".suggested_bounds"] = lambda r_, a, k: [(at("LO"), at("HI")), (at("NLO"), at("NHI"))] if isinstance(r_, Obj) and r_.name == "config" else (_ for _ in ()).throw(NotHandled())
        w.base[".par_slice"] = lambda r_, a, k: Obj("slice", {"start": Poly.const(0), "stop": Poly.const(1)}) if isinstance(r_, Obj) and r_.name == "config" else (_ for _ in ()).throw(NotHandled())
        w.ext = None
        opts = {"par_bounds": [(at("LO"), at("HI")), (at("PLO"), at("PHI"))], "test_stat": "q", "calctype": "asymptotics"}
        out = w.call_func(ul, [data_list, MODEL], {"level": at("LEVEL"), "return_results": True, **opts})
        probs = []
        if not rec["hypotest"]:
            probs.append("no hypotest evaluation at all")
        for h in rec["hypotest"]:
            kw = h["kw"]
            missing = [o for o in opts if o not in kw]
            if h["data"] is not data_list or h["model"] is not MODEL or kw.get("return_expected_set") is not True or missing:
                probs.append(f"the hypotest at mu = {h['poi']} does not receive the caller's data, model and options" + (f": option(s) {missing} given to upper_limit are not passed on, so the limit solves CLs = level for a different test than the caller configured" if missing else ""))
                break
        if rec.get("moved"):
            probs.append(f"the root finder asks for CLs at mu = {rec['moved'][0][0]} and the hypothesis test is run at mu = {rec['moved'][0][1]}: the function handed to the root finder is not CLs(mu) - level at the point asked for (a step function on an absolute lattice cannot be solved to a relative tolerance)")
        tcs = rec["toms748"]
        if len(tcs) != 6:
            probs.append(f"{len(tcs)} root searches, expected 1 observed + 5 expected")
        else:
            if tcs[0]["bracket"] != ("LO", "HI"):
                probs.append(f"observed root: bracket {tcs[0]['bracket']}, expected the POI bounds (LO, HI)")
            for j in range(6):
                # whatever way the level and the curve number travel (args=, a closure, a helper): the function the root
                # finder gets is CLs_j(mu) - level at the mu it is asked for
                for tag_, fv_ in tcs[j].get("f_values", []):
                    try:
                        okf_ = to_poly(fv_) == at(f"cls{j}<{tag_}>") - at("LEVEL")
                    except Undecided:
                        okf_ = False
                    if not okf_:
                        probs.append(f"root search {j} ({'observed' if j == 0 else 'expected curve %d' % j}): the function handed to the root finder gives {fv_ if not isinstance(fv_, Poly) else str(fv_)} at mu = {tag_}, not cls{j}<{tag_}> - LEVEL")
                        break
                else:
                    continue
                break
        if probs:
            ctx.violated(r6, ul, "automatic scan", "the automatic scan does not solve CLs(mu) = level for the caller's hypothesis test: " + probs[0], found=f"{len(probs)} deviation(s)")
        else:
            ctx.holds(r6, f"{UL}::upper_limit -> toms748_scan [interpreted]", f"{len(rec['hypotest'])} hypotests with data, model, return_expected_set and all of {sorted(opts)}; 6 root searches with (level, k)")
        # second call: same list object, refilled in place
        n1 = len(rec["hypotest"])
        data_list[0] = at("d0_new")
        rec["toms748"].clear()
        w.call_func(ul, [data_list, MODEL], {"level": at("LEVEL"), "return_results": True, **opts})
        second = rec["hypotest"][n1:]
        stale = [h for h in second if h["data_content"] != ["d0_new", "d1"]]
        if len(second) < 2 or stale:
            ctx.violated(r6, toms, "second scan after the data were refilled in place", f"the second scan evaluated hypotest {len(second)} time(s) on the current data (the first scan needed {n1}): per-point results remembered from an earlier call are reused although the data changed -- the limit is the previous dataset's", expected=f">= 2 fresh evaluations on ['d0_new', 'd1']", found=f"{len(second)} evaluation(s)")
        else:
            ctx.holds(r6, f"{UL}::toms748_scan [second call, data refilled in place]", f"{len(second)} fresh hypotest evaluations on the current data")
        # third call in the same process: NO hypothesis-test options this time -- none of the earlier calls' options may come back
        n2 = len(rec["hypotest"])
        rec["toms748"].clear()
        w.call_func(ul, [data_list, MODEL], {"level": at("LEVEL")})
        third = rec["hypotest"][n2:]
        leaked = sorted({o for h in third for o in h["kw"] if o in opts})
        if not third:
            ctx.violated(r6, toms, "third scan, without options", "no hypothesis test is evaluated")
        elif leaked:
            ctx.violated(r6, toms, "third scan, without options", f"a scan called WITHOUT hypothesis-test options runs its tests with {leaked}, which an EARLIER scan of the process was given: options are remembered across calls, so the limit solves CLs = level for a test the caller did not ask for", expected="only the scan's own return_expected_set", found=f"options {sorted(third[0]['kw'])}")
        else:
            ctx.holds(r6, f"{UL}::toms748_scan [third call, no options]", "the earlier calls' options do not come back")
    except errs as e:
        ctx.unrecognised(r6, ul, "upper_limit (automatic)", f"not interpretable: {type(e).__name__}: {e}")
    # ---------------------------------------------------------------- toms748_scan directly: tolerances, and bracket extension at a level that is NOT 0.05
    rec = {"hypotest": [], "interp": [], "toms748": []}
    region = AutoRegion()
    region.update({"LO": F_(1), "HI": F_(10), "LEVEL": F_(1, 5), "ATOL": F_(1, 100), "RTOL": F_(1, 1000)})

    def cls_steps(poi, region=region):
        v = poi.evalf(region)
        return [F_(1, 2) if v < F_(3, 4) else (F_(1, 10) if v < 15 else F_(1, 100))] * 6

    try:
        from ..alg import RaisedInFragment
        w = mk_world(region, rec, cls_steps)
        MODEL = Obj("MODEL", {"config": Obj("config", {"poi_name": "mu"})})
        w.ext = None
        w.call_func(toms, [[at("t0"), at("t1")], MODEL, at("LO"), at("HI")], {"level": at("LEVEL"), "atol": at("ATOL"), "rtol": at("RTOL")})
        tcs = rec["toms748"]
        probs = []
        if len(tcs) != 6:
            probs.append(f"{len(tcs)} root searches, expected 1 observed + 5 expected")
        else:
            for j, tc in enumerate(tcs):
                if str(to_poly(tc["xtol"])) != "ATOL" if tc["xtol"] is not None else True:
                    probs.append(f"root search {j}: the absolute tolerance the caller asked for (atol) is not what the root finder gets as xtol ({tc['xtol']})")
                    break
                if str(to_poly(tc["rtol"])) != "RTOL" if tc["rtol"] is not None else True:
                    probs.append(f"root search {j}: the relative tolerance the caller asked for (rtol) is not what the root finder gets ({tc['rtol']})")
                    break
            if not probs and (tcs[0]["lo_value"], tcs[0]["hi_value"]) != (F_(1, 2), F_(10)):
                probs.append(f"with level = 0.2, CLs = 0.1 at both given bounds [1, 10] (0.5 below 0.75, 0.01 beyond 15): the lower bound has to be halved once and the upper bound kept, the observed root is searched in [{tcs[0]['lo_value']}, {tcs[0]['hi_value']}] -- the bracket is extended by comparing with something else than the caller's level")
        if probs:
            ctx.violated(r6, toms, "toms748_scan, level 0.2 with tolerances", probs[0], expected="xtol = atol, rtol = rtol in all six searches; observed bracket [0.5, 10]", found=probs[0])
        else:
            ctx.holds(r6, f"{UL}::toms748_scan [interpreted; level 0.2, bounds not bracketing at first]", "caller's tolerances reach every root search; the bracket is extended by comparison with the caller's level")
    except RaisedInFragment as e:
        ctx.violated(r6, toms, "toms748_scan, level 0.2 with tolerances", f"raises {e.exc_name}")
    except errs as e:
        ctx.unrecognised(r6, toms, "toms748_scan (level 0.2, tolerances)", f"not interpretable: {type(e).__name__}: {e}")
    # ---------------------------------------------------------------- automatic, curves crossing at different places
    rec = {"hypotest": [], "interp": [], "toms748": []}
    region = AutoRegion()
    region.update({"LO": F_(0), "HI": F_(10), "LEVEL": F_(1, 20), "ATOL": F_(1, 100), "RTOL": F_(1, 100)})
    cross = [F_(3), F_(4), F_(6), F_(7), F_(9), F_(15)]  # observed, then -2 .. +2 sigma: the +2 sigma curve crosses BEYOND the POI's upper bound

    def cls_spread(poi, region=region):
        v = poi.evalf(region)
        # strictly decreasing curves: the cached point closest below / above each crossing is that curve's best bracket
        return [max(F_(1, 20) + (cross[k_] - v) / 100, F_(1, 10000)) for k_ in range(6)]

    try:
        from ..alg import RaisedInFragment
        w = mk_world(region, rec, cls_spread)
        MODEL = Obj("MODEL", {"config": Obj("config", {"poi_name": "mu"})})
        w.base[".suggested_bounds"] = lambda r_, a, k: [(at("LO"), at("HI")), (at("NLO"), at("NHI"))] if isinstance(r_, Obj) and r_.name == "config" else (_ for _ in ()).throw(NotHandled())
        w.base[".par_slice"] = lambda r_, a, k: Obj("slice", {"start": Poly.const(0), "stop": Poly.const(1)}) if isinstance(r_, Obj) and r_.name == "config" else (_ for _ in ()).throw(NotHandled())
        w.ext = None
        w.call_func(ul, [[at("e0"), at("e1")], MODEL], {"level": at("LEVEL")})
        tcs = rec["toms748"]
        probs = []
        if len(tcs) != 6:
            probs.append(f"{len(tcs)} root searches, expected 1 observed + 5 expected")
        else:
            for k_, tc in enumerate(tcs):
                lo_v, hi_v = tc.get("lo_value"), tc.get("hi_value")
                if lo_v is None or hi_v is None:
                    continue
                if not (lo_v < cross[k_] <= hi_v):
                    probs.append(f"the root search for curve {k_} ({'observed' if k_ == 0 else '%+d sigma' % (k_ - 3)}) is bracketed by [{lo_v}, {hi_v}]; that curve crosses the level at mu = {cross[k_]}: the bracket does not contain the crossing (the scan range was not extended until EVERY curve is below the level)")
                    break
        if probs:
            ctx.violated(r6, toms, "automatic scan, curves crossing at different places", probs[0], expected="each of the six root searches bracketed around its own curve's crossing", found=probs[0])
        else:
            ctx.holds(r6, f"{UL}::toms748_scan [interpreted; the +2 sigma curve crosses beyond the POI bound]", "the range is extended until every curve is below the level; each root search is bracketed around its own crossing")
    except RaisedInFragment as e:
        ctx.violated(r6, toms, "automatic scan, curves crossing at different places", f"raises {e.exc_name}: the scan range is not extended until every curve has crossed the level, so an expected limit has no bracket")
    except errs as e:
        ctx.unrecognised(r6, ul, "upper_limit (automatic, spread curves)", f"not interpretable: {type(e).__name__}: {e}")


def _toy_band(ctx, rid, repo):
    import math
    from fractions import Fraction as F_
    from .. import listnp
    from ..alg import AutoRegion, NotHandled, RaisedInFragment
    from ..objmodel import Instance, World
    at, c = Poly.atom, Poly.const
    CALC = "src/pyhf/infer/calculators.py"
    tcc = repo.cls(CALC, "ToyCalculator")
    ep = tcc.methods.get("expected_pvalues") if tcc else None
    if ep is None:
        ctx.unrecognised(rid, repo.module(CALC), "ToyCalculator.expected_pvalues", "not found")
        return
    ctx.touch(ep)
    phi = lambda n: 50.0 * (1.0 + math.erf(n / math.sqrt(2.0)))
    want_q = {n: phi(n) for n in (-2, -1, 0, 1, 2)}
    kinds = ("CLsb", "CLb", "CLs")
    seen = {}

    def num(v):
        p_ = to_poly(v)
        if not p_.is_const():
            raise Undecided("percentile rank is not a number")
        return float(p_.const_value())

    def percentile(a, k):
        tensor, q = a[0], a[1] if len(a) > 1 else k.get("q")
        axis = k.get("axis", a[2] if len(a) > 2 else None)
        seen["axis"] = None if axis is None else int(num(axis))
        seen["tensor"] = [[str(to_poly(x)) for x in row] for row in tensor]
        qs = [num(x) for x in (q if isinstance(q, list) else [q])]
        seen["q"] = qs
        labels = []
        for x in qs:
            n_ = [n for n, w_ in want_q.items() if abs(w_ - x) < 1e-4]
            labels.append(f"{n_[0]:+d}sigma" if n_ else f"q={x:.4f}")
        # result of percentile(t, q, axis=0) on a (toys, 3) tensor: shape (len(q), 3)
        return listnp.T([[at(f"PCT[{lab}]({kinds[j]})") for j in range(3)] for lab in labels])

    def normal_cdf(a, k):
        x = a[0]
        f = lambda v: to_poly(F_(0.5 * (1.0 + math.erf(num(v) / math.sqrt(2.0)))).limit_denominator(10 ** 12))
        return listnp.T([f(v) for v in x]) if isinstance(x, list) else f(x)

    try:
        ext = listnp.externals()
        ext.update({"__strict__": True, "percentile": percentile, "normal_cdf": normal_cdf,
                    "transpose": lambda a, k: listnp.T([list(r) for r in zip(*a[0])]),
                    "get_backend": (lambda tl_: (lambda a, k: (tl_, None)))(Obj("tensorlib", {"name": "numpy", "precision": "64b"}))})
        w = World(ext, region=AutoRegion(), module_env={"log": Obj("log")})
        w.add_class(tcc)
        inst = Instance(tcc)
        ntoys = 4
        inst.attrs["pvalues"] = __import__("pyhfsa.alg", fromlist=["PyFunc"]).PyFunc(lambda a, k: tuple(at(f"{kd}<{to_poly(a[0])}>") for kd in kinds), "pvalues")
        bkg = Obj("bkg_dist", {"samples": listnp.T([at(f"t{i}") for i in range(ntoys)])})
        sb = Obj("sb_dist", {"samples": listnp.T([at(f"s{i}") for i in range(ntoys)])})
        out = w.call_method(inst, "expected_pvalues", [sb, bkg])
        got = [[str(to_poly(x)) for x in band] for band in out]
        want = [[f"PCT[{n:+d}sigma]({kd})" for n in (-2, -1, 0, 1, 2)] for kd in kinds]
        want_tensor = [[f"{kd}<t{i}>" for kd in kinds] for i in range(ntoys)]
        if seen.get("tensor") != want_tensor or seen.get("axis") != 0:
            ctx.violated(rid, ep, "percentile input", "the percentiles are not taken over the background-only toys (axis 0) of the (CLsb, CLb, CLs) computed for each background-only toy statistic", expected=f"{want_tensor} along axis 0", found=f"{seen.get('tensor')} along axis {seen.get('axis')}", node=ep.node)
        elif got != want:
            ctx.violated(rid, ep, "toy expected band", "the expected set of the toy calculator does not run from -2 sigma to +2 sigma (percentiles 2.28, 15.87, 50, 84.13, 97.72 of the background-only toy p-values): the scan's five expected limits come out in another order / for other quantiles than the asymptotic ones", expected=str(want), found=str(got), node=ep.node)
        else:
            ctx.holds(rid, f"{CALC}::ToyCalculator.expected_pvalues", f"percentile ranks {['%.4f' % x for x in seen['q']]} along the toy axis; bands returned as [CLsb, CLb, CLs] x (-2..+2 sigma)")
    except RaisedInFragment as e:
        ctx.violated(rid, ep, "ToyCalculator.expected_pvalues", f"raises {e.exc_name} on valid inputs", node=ep.node)
    except (Undecided, KeyError, TypeError, ValueError, IndexError, AttributeError) as e:
        ctx.unrecognised(rid, ep, "ToyCalculator.expected_pvalues", f"not interpretable: {type(e).__name__}: {e}")


def _results_interpreted(ctx, rid, repo):
    from fractions import Fraction as F_
    from .. import listnp
    from ..alg import AutoRegion, NotHandled
    lin, toms, ul = repo.func(UL, "linear_grid_scan"), repo.func(UL, "toms748_scan"), repo.func(UL, "upper_limit")
    at = Poly.atom
    errs = (Undecided, KeyError, TypeError, ValueError, IndexError, AttributeError)

    def judge(out, rr, site, where, label):
        if not rr:
            if isinstance(out, (tuple, list)) and len(out) == 2:
                ctx.holds(rid, site, "(observed, expected)")
            else:
                ctx.violated(rid, where, label, "without return_results the result is not the pair (observed limit, expected limits)", found=f"{len(out) if isinstance(out, (tuple, list)) else type(out).__name__} element(s)")
            return
        ok = isinstance(out, (tuple, list)) and len(out) == 3 and isinstance(out[2], (tuple, list)) and len(out[2]) == 2
        if not ok:
            ctx.violated(rid, where, label, "with return_results the third element is not the pair (scan points, per-point results)", found=str(type(out).__name__))
            return
        pts, res = out[2]
        try:
            pts = [str(to_poly(x)) for x in listnp._flatten(pts)] if isinstance(pts, (list, tuple)) else None
            res = list(res) if isinstance(res, (list, tuple)) else None
        except Undecided:
            pts = None
        if pts is None or res is None:
            ctx.violated(rid, where, label, "the reported points / results are not sequences", found=f"{type(out[2][0]).__name__}, {type(out[2][1]).__name__}")
            return
        if len(pts) != len(res):
            ctx.violated(rid, where, label, f"{len(pts)} scan points are reported with {len(res)} per-point results: results[i] is no longer the hypothesis test at points[i]", expected="as many results as points", found=f"{len(pts)} points, {len(res)} results")
            return
        for i_, (p_, r_) in enumerate(zip(pts, res)):
            tag = None
            if isinstance(r_, (tuple, list)) and r_:
                tag = str(to_poly(r_[0]))
            if tag != f"cls0<{p_}>":
                ctx.violated(rid, where, label, f"the result reported for scan point {p_} (position {i_}) is the hypothesis test evaluated somewhere else ({tag})", expected=f"cls0<{p_}>", found=str(tag))
                return
        ctx.holds(rid, site, f"{len(pts)} points, results[i] evaluated at points[i]")

    obs = {0: F_(9, 10), 1: F_(1, 2), 2: F_(1, 5), 3: F_(1, 100)}
    # ---- grid with a repeated point (a coarse grid refined around the crossing shares a point)
    for via, rr in (("linear_grid_scan", True), ("upper_limit", True), ("upper_limit", False)):
        rec = {"hypotest": [], "interp": [], "toms748": []}
        region = AutoRegion()
        for i in range(4):
            region[f"x{i}"] = F_(i)
        region["LEVEL"] = F_(1, 20)

        def cls_of(poi, region=region):
            i = int(poi.evalf(region))
            return [obs[i] / (k + 1) for k in range(6)]

        label = f"{via}(scan with a repeated point, return_results={rr})"
        where = lin if via == "linear_grid_scan" else ul
        try:
            w = _mk_world(repo, region, rec, cls_of)
            scan = listnp.T([at("x0"), at("x1"), at("x1"), at("x2"), at("x3")])
            if via == "linear_grid_scan":
                out = w.call_func(lin, [Obj("DATA"), Obj("MODEL"), scan, at("LEVEL"), rr], {})
            else:
                out = w.call_func(ul, [Obj("DATA"), Obj("MODEL")], {"scan": scan, "level": at("LEVEL"), "return_results": rr})
            judge(out, rr, f"{UL}::{label}", where, label)
        except errs as e:
            ctx.unrecognised(rid, where, label, f"not interpretable: {type(e).__name__}: {e}")
    # ---- automatic
    rec = {"hypotest": [], "interp": [], "toms748": []}
    region = AutoRegion()
    region.update({"LO": F_(0), "HI": F_(10), "LEVEL": F_(1, 20)})

    def cls_auto(poi, region=region):
        v = poi.evalf(region)
        return [F_(9, 10)] * 6 if v < 1 else ([F_(1, 1000)] * 6 if v > 5 else [F_(1, 2)] * 6)

    for rr in (True, False):
        label = f"upper_limit(scan=None, return_results={rr})"
        try:
            w = _mk_world(repo, region, rec, cls_auto)
            cfg = Obj("config", {"poi_name": "mu"})
            MODEL = Obj("MODEL", {"config": cfg})
            w.base[".suggested_bounds"] = lambda r_, a, k: [(at("LO"), at("HI"))] if isinstance(r_, Obj) and r_.name == "config" else (_ for _ in ()).throw(NotHandled())
            w.base[".par_slice"] = lambda r_, a, k: Obj("slice", {"start": Poly.const(0), "stop": Poly.const(1)}) if isinstance(r_, Obj) and r_.name == "config" else (_ for _ in ()).throw(NotHandled())
            w.ext = None
            out = w.call_func(ul, [Obj("DATA"), MODEL], {"level": at("LEVEL"), "return_results": rr})
            judge(out, rr, f"{UL}::{label}", ul, label)
        except errs as e:
            ctx.unrecognised(rid, ul, label, f"not interpretable: {type(e).__name__}: {e}")
