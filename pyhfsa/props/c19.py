"""C19 -- the command line returns what the library returns.

  R1 FWD/TABLE  every declared option/argument of every subcommand is a
                parameter of the command function, is read by it, and reaches
                the documented library parameter (contract table keyed on the
                public option strings)
  R2 SIB        the file arm and the stdout arm serialise the same object
                with the same encoder options
  R3 TABLE      the subcommands registered in cli/cli.py are exactly the
                decorated ones
"""

from __future__ import annotations

import ast

from .. import astutil as A
from ..dep import Deps, FlowDeps

EXPLANATION = (
    "click decorators of every subcommand are parsed into (option strings -> python parameter name); the command's "
    "signature must declare exactly those names and read each of them (an option that is parsed and never read is "
    "the 'ignored option' defect); a contract table keyed on the public option strings names the library callee and "
    "formal parameter each option must reach, decided by flow-sensitive dependence from the option variable to the "
    "actual argument bound to that formal (R1). The json.dumps/json.dump arms selected by --output-file must "
    "serialise the same expression with the same indent/sort_keys (R2). cli.py must add every decorated command or "
    "its group (R3). NOT decided: exit status equivalence, numeric equality with library results, text layout of "
    "`inspect`."
)
ASSUMPTIONS = [
    "click derives the python parameter name from the explicit name, else the longest --option with '-'->'_', arguments lower-cased with '-'->'_'",
    "library callee signatures are read from the current source of the callee",
]

CLI = "src/pyhf/cli/"
WS = "src/pyhf/workspace.py"

# callee attr-name -> (relpath, qualname) used to bind actuals to formals
CALLEES = {
    "model": (WS, "Workspace.model"),
    "get_measurement": (WS, "Workspace.get_measurement"),
    "prune": (WS, "Workspace.prune"),
    "rename": (WS, "Workspace.rename"),
    "combine": (WS, "Workspace.combine"),
    "sorted": (WS, "Workspace.sorted"),
    "data": (WS, "Workspace.data"),
    "Workspace": (WS, "Workspace.__init__"),
    "hypotest": ("src/pyhf/infer/__init__.py", "hypotest"),
    "fit": ("src/pyhf/infer/mle.py", "fit"),
    "digest": ("src/pyhf/utils.py", "digest"),
    "parse": ("src/pyhf/readxml.py", "parse"),
    "writexml": ("src/pyhf/writexml.py", "writexml"),
    "apply": ("src/pyhf/patchset.py", "PatchSet.apply"),
    "verify": ("src/pyhf/patchset.py", "PatchSet.verify"),
    "PatchSet": ("src/pyhf/patchset.py", "PatchSet.__init__"),
    "set_backend": ("src/pyhf/tensor/manager.py", "set_backend"),
}

# (file, command function) -> {python param: [(callee, formal) ...]}   'CONTROL:<callee>' = must guard a call of callee
# '@open' = must reach click.open_file/open ; '@getitem:PatchSet' = used as lookup key on the PatchSet object
CONTRACT = {
    ("infer.py", "fit"): {
        "workspace": [("Workspace", "spec")],
        "measurement": [("model", "measurement_name")],
        "patch": [("model", "patches")],
        "value": [("fit", "return_fitted_val")],
        "backend": [("CONTROL", "set_backend")],
        "optimizer": [("set_backend", "custom_optimizer")],
        "optconf": [("set_backend", "custom_optimizer")],
        "output_file": [("@open", None)],
    },
    ("infer.py", "cls"): {
        "workspace": [("Workspace", "spec")],
        "measurement": [("model", "measurement_name")],
        "patch": [("model", "patches")],
        "test_poi": [("hypotest", "poi_test")],
        "test_stat": [("hypotest", "test_stat")],
        "calctype": [("hypotest", "calctype")],
        "backend": [("CONTROL", "set_backend")],
        "optimizer": [("set_backend", "custom_optimizer")],
        "optconf": [("set_backend", "custom_optimizer")],
        "output_file": [("@open", None)],
    },
    ("spec.py", "inspect"): {
        "workspace": [("Workspace", "spec")],
        "measurement": [("get_measurement", "measurement_name"), ("model", "measurement_name")],
        "output_file": [("@open", None)],
    },
    ("spec.py", "prune"): {
        "workspace": [("Workspace", "spec")],
        "channel": [("prune", "channels")],
        "sample": [("prune", "samples")],
        "modifier": [("prune", "modifiers")],
        "modifier_type": [("prune", "modifier_types")],
        "measurement": [("prune", "measurements")],
        "output_file": [("@open", None)],
    },
    ("spec.py", "rename"): {
        "workspace": [("Workspace", "spec")],
        "channel": [("rename", "channels")],
        "sample": [("rename", "samples")],
        "modifier": [("rename", "modifiers")],
        "measurement": [("rename", "measurements")],
        "output_file": [("@open", None)],
    },
    ("spec.py", "combine"): {
        "workspace_one": [("combine", "left")],
        "workspace_two": [("combine", "right")],
        "join": [("combine", "join")],
        "merge_channels": [("combine", "merge_channels")],
        "output_file": [("@open", None)],
    },
    ("spec.py", "digest"): {
        "workspace": [("digest", "obj")],
        "algorithm": [("digest", "algorithm")],
        "output_json": [("CONTROL", "dumps")],
    },
    ("spec.py", "sort"): {
        "workspace": [("sorted", "workspace")],
        "output_file": [("@open", None)],
    },
    ("patchset.py", "extract"): {
        "patchset": [("PatchSet", "spec")],
        "name": [("@getitem", None)],
        "with_metadata": [("CONTROL", "update")],
        "output_file": [("@open", None)],
    },
    ("patchset.py", "apply"): {
        "background_only": [("apply", "spec")],
        "patchset": [("PatchSet", "spec")],
        "name": [("apply", "key")],
        "output_file": [("@open", None)],
    },
    ("patchset.py", "verify"): {
        "background_only": [("verify", "spec")],
        "patchset": [("PatchSet", "spec")],
    },
    ("patchset.py", "inspect"): {
        "patchset": [("PatchSet", "spec")],
    },
    ("rootio.py", "xml2json"): {
        "entrypoint_xml": [("parse", "configfile")],
        "basedir": [("parse", "rootdir")],
        "mount": [("parse", "mounts")],
        "track_progress": [("parse", "track_progress")],
        "validation_as_error": [("parse", "validation_as_error")],
        "output_file": [("@open", None)],
    },
    ("rootio.py", "json2xml"): {
        "workspace": [("writexml", "spec")],
        "output_dir": [("writexml", "specdir"), ("writexml", "data_rootdir"), ("@open", None)],
        "specroot": [("writexml", "specdir")],
        "dataroot": [("writexml", "data_rootdir")],
        "resultprefix": [("writexml", "resultprefix"), ("@open", None)],
        "patch": [("writexml", "spec")],
    },
}
FLOOR_COMMANDS = 14
FLOOR_PARAMS = 60


def click_commands(module):
    """[(func, group_name, [(kind, pyname, option_strings, decorator_call)])] for functions decorated @<g>.command()."""
    out = []
    for f in module.funcs.values():
        if f.cls is not None or ".<locals>." in f.qualname:
            continue
        group = None
        params = []
        for d in f.node.decorator_list:
            if isinstance(d, ast.Name) and isinstance(module.assigns.get(d.id), ast.Call):
                d = module.assigns[d.id]  # `shared_option = click.option(...)` at module level, applied as `@shared_option`
            if not isinstance(d, ast.Call):
                continue
            nm = A.dotted(d.func) or ""
            if nm.endswith(".command"):
                group = nm.rsplit(".", 1)[0]
            elif nm in ("click.option", "click.argument"):
                strs = [A.const_value(a) for a in d.args if isinstance(A.const_value(a), str)]
                kws = {k.arg: k.value for k in d.keywords}
                if "expose_value" in kws and A.const_value(kws["expose_value"]) is False:
                    continue
                params.append(("option" if nm.endswith("option") else "argument", _pyname(nm, strs), strs, d))
        if group is not None:
            out.append((f, group, params))
    return out


def _pyname(kind, strs):
    if kind.endswith("argument"):
        return strs[0].lower().replace("-", "_")
    explicit = [s for s in strs if not s.startswith("-")]
    if explicit:
        return explicit[0]
    longs = [s for s in strs if s.startswith("--")]
    cand = longs or strs
    # boolean flag pairs "--a/--b": first half
    best = max((c.split("/")[0] for c in cand), key=len)
    return best.lstrip("-").lower().replace("-", "_")


def run(ctx):
    repo = ctx.repo
    r1 = ctx.rule(
        "C19.R1",
        "FWD/TABLE: each declared click option/argument is a parameter of the command function, is read in its body, and "
        "reaches the documented library parameter (contract table keyed on the option strings) as a value derived from it",
        "FWD", floor=FLOOR_PARAMS,
    )
    r2 = ctx.rule(
        "C19.R2",
        "SIB: the stdout arm (json.dumps) and the file arm (json.dump) selected by --output-file serialise the same "
        "expression with the same indent / sort_keys",
        "SIB", floor=8,
    )
    r3 = ctx.rule(
        "C19.R3",
        "TABLE: every function decorated as a click command in cli/{infer,spec,rootio,patchset}.py is registered in cli/cli.py "
        "(directly or through its group)",
        "TABLE", floor=FLOOR_COMMANDS,
    )
    r4 = ctx.rule(
        "C19.R4",
        "STATE (interpreted): `pyhf fit` and `pyhf cls` walked end to end over a model of the backend manager, files and recording "
        "library objects, for every --backend / --optimizer choice (and the defaults read from the decorators), several --optconf "
        "lists, both output arms, and process states left by an earlier invocation: exactly one library call, with the workspace, "
        "measurement, patches and value options as given, issued under the backend the option names and under the optimiser the "
        "options name with exactly the merged --optconf settings; the JSON emitted is made of what that call returned",
        "STATE", floor=25,
    )
    r5 = ctx.rule(
        "C19.R5",
        "BACKEND-STATE (interpreted, engine shared with C11.R7): what `--backend` / `--optimizer` / `--optconf` hand to set_backend "
        "takes effect: set_backend walked over histories of backend names, precisions, optimizer names and optimizer OBJECTS carrying "
        "settings (equality between optimizers decided by the real optimizer classes): after every call the backend and the optimizer "
        "in force -- with its settings -- are the ones that call asked for",
        "STATE", floor=20,
    )
    from .c11 import _r7_switch_histories
    _r7_switch_histories(ctx, r5)
    from .c05 import _optimizer_construction
    _optimizer_construction(ctx, r5, repo)  # what --optconf hands to the optimizer classes is what their fits run with; a later default optimizer is a default one
    r6 = ctx.rule(
        "C19.R6",
        "OPTCONF-PARSE (interpreted): `--optconf key=value` is split at the FIRST '=' only and handed to the YAML loader as the line "
        "`key: value`, one line per option in the order given (utils.options_from_eqdelimstring and EqDelimStringParamType.convert "
        "interpreted with yaml.safe_load as a recorder): values that contain '=' themselves, numbers in exponent notation, booleans "
        "and inline mappings arrive as typed; a string without '=' is refused through click's failure path",
        "PARSE", floor=2,
    )
    _optconf_parse(ctx, r6, repo)
    r7 = ctx.rule(
        "C19.R7",
        "IMPORT-TIME-DEFAULT: a click option / argument default written as a CALL in the decorator is evaluated once, when the CLI "
        "module is imported; a default that stands for process state at INVOCATION time (the working directory, the environment, the "
        "time) must therefore be a literal ('.'), or a callable handed to click uncalled (`default=Path.cwd`), never the result of "
        "calling it in the decorator (`default=Path.cwd()`): after a chdir the command would read or write in the directory the "
        "process was in at import",
        "EFFECT", floor=10,
    )
    _import_time_defaults(ctx, r7, repo)
    r8 = ctx.rule(
        "C19.R8",
        "DEFAULT-AGREEMENT: leaving an option out on the command line means what leaving the argument out of the library call means: "
        "for every option the contract table forwards to a library parameter that has a default of its own (Workspace.combine join / "
        "merge_channels, hypotest test_stat / calctype, digest algorithm ...), the option's default -- evaluated statically, class-level "
        "tables such as `Workspace.valid_joins[0]` included -- equals the library parameter's default",
        "TABLE", floor=4,
    )
    _default_agreement(ctx, r8, repo)
    r9 = ctx.rule(
        "C19.R9",
        "OPTION-TYPE: the package's own click parameter type behind `xml2json -v/--mount` (VolumeMountPath.convert, interpreted with "
        "click.Path as a foreign base class and the os.path normalisers as symbolic functions) turns 'HOST:MOUNT' into (click's own "
        "conversion of HOST, MOUNT exactly as typed), with resolve_path on and off: the mount point is the prefix readxml's resolver "
        "compares with the path STRINGS written in the XML files, so it is never resolved against the working directory or "
        "normalised; a value without exactly one colon is refused through self.fail",
        "FWD", floor=3,
    )
    _mount_option_type(ctx, r9, repo)
    from . import c19cli
    c19cli.check_infer(ctx, r4, repo)
    c19cli.check_inspect(ctx, r4, repo)
    c19cli.check_workspace_commands(ctx, r4, repo)
    c19cli.check_rootio(ctx, r4, repo)
    all_cmds = []
    for fn in ("infer.py", "spec.py", "patchset.py", "rootio.py"):
        m = repo.module(CLI + fn)
        ctx.touch_file(m.relpath)
        for f, group, params in click_commands(m):
            all_cmds.append((fn, f, group, params))
    if len(all_cmds) < FLOOR_COMMANDS:
        ctx.error(f"C19: only {len(all_cmds)} click commands found, floor {FLOOR_COMMANDS}")

    for fn, f, group, params in all_cmds:
        ctx.touch(f)
        declared = [p[1] for p in params]
        sig = [p for p in A.params_of(f.node)]
        site0 = f"{f.relpath}::{f.qualname}"
        if sorted(declared) != sorted(sig):
            ctx.violated(r1, f, f"def {f.name}({', '.join(sig)})", f"declared click parameters {sorted(declared)} differ from the function signature {sorted(sig)} (click passes each declared name as a keyword)",
                         expected=str(sorted(declared)), found=str(sorted(sig)), node=f.node)
        contract = CONTRACT.get((fn, f.name))
        fd = FlowDeps(f.node)
        deps = Deps(f.node)
        body_reads = {n.id for n in ast.walk(f.node) if isinstance(n, ast.Name) and isinstance(n.ctx, ast.Load)}
        for kind, py, strs, deco in params:
            opt = "/".join(strs)
            site = f"{site0} [{opt}]"
            if py not in body_reads:
                ctx.violated(
                    r1, f, f"click.{kind}({', '.join(repr(s) for s in strs)})",
                    f"option `{opt}` of `pyhf {f.name}` is declared and parsed but the command never reads `{py}`: it has no effect",
                    expected=f"`{py}` forwarded to the library call", found="parameter unused", node=deco,
                )
                continue
            if contract is None:
                ctx.unrecognised(r1, f, f.name, "subcommand not in the contract table (new command: extend CONTRACT)")
                break
            targets = contract.get(py)
            if targets is None:
                # an option the documentation of the pinned release does not have: nothing to compare it with; it IS read by the
                # command (tested above), and every documented option is still required below
                ctx.holds(r1, site, "a new option (not in the contract table of documented options): declared, in the signature, read by the command")
                continue
            for callee, formal in targets:
                ok, why = _reaches(repo, f, fd, deps, py, callee, formal, value_typed=_value_typed(deco) and callee != "set_backend")  # --optimizer names a class that is looked up
                if ok is None:
                    ctx.unrecognised(r1, f, opt, why)
                elif ok:
                    ctx.holds(r1, site + f" -> {callee}({formal or ''})", why)
                else:
                    ctx.violated(
                        r1, f, f"{opt} -> {callee}({formal})" if formal else f"{opt} -> {callee}",
                        f"option `{opt}` of `pyhf {f.name}` does not reach {callee}({formal or ''}): {why}",
                        expected=f"{callee}(..., {formal}=<derived from {py}>)" if formal else callee, found=why, node=f.node,
                    )
        if contract is not None:
            gone = sorted(set(contract) - {py_ for _, py_, _, _ in params})
            if gone:
                ctx.violated(r1, f, f"documented option(s) {gone}", f"`pyhf {f.name}` no longer declares the documented option(s) bound to {gone}: a command line that used them is refused", expected=f"options for {sorted(contract)}", found=f"options for {sorted(py_ for _, py_, _, _ in params)}", node=f.node)
        # ---- patches are applied cumulatively; the optimiser is installed after the last backend switch
        _cumulative_patches(ctx, r1, f)
        _optimizer_after_backend(ctx, r1, f)
        # ---- R2
        _file_vs_stdout(ctx, r2, f)
        for h_ in repo.helpers_of(f, depth=1):  # the two arms may live in a helper several commands share: judged there, once per command using it
            _file_vs_stdout(ctx, r2, h_, via=f)

    # ---- option type converters: what click's own conversion (checks, path resolution) produced is what is returned
    um = repo.module("src/pyhf/utils.py")
    for cname, cls in sorted(um.classes.items()):
        if not any((b or "").startswith("click.") for b in cls.base_names()):
            continue
        conv = cls.methods.get("convert")
        if conv is None:
            continue
        ctx.touch(conv)
        sup = [c for c in A.calls_in(conv.node) if isinstance(c.func, ast.Attribute) and c.func.attr == "convert" and isinstance(c.func.value, ast.Call) and A.call_name(c.func.value) == "super"]
        if not sup:
            continue
        cdeps = Deps(conv.node)
        rets = [r for r in ast.walk(conv.node) if isinstance(r, ast.Return) and r.value is not None]
        for c in sup:
            used = any(any(x is c for x in ast.walk(r.value)) for r in rets)
            if not used:
                names = {nm for n in ast.walk(conv.node) if isinstance(n, ast.Assign) and any(x is c for x in ast.walk(n.value)) for nm in A.assigned_names(n.targets[0])}
                used = any(cdeps.roots_of(r.value) & names for r in rets) if names else False
            site = f"{conv.relpath}::{cname}.convert: {A.short(c, 50)}"
            if used:
                ctx.holds(r1, site, "the value converted (checked, resolved) by click is the value returned")
            else:
                ctx.violated(r1, conv, c, f"{cname}.convert runs click's own conversion of the value but returns something else: the path checks and the resolution the option was declared with (resolve_path, exists ...) do not apply to what the command receives", expected="return (super().convert(...), ...)", found="result of super().convert dropped", node=c)

    wm = repo.func(WS, "Workspace.model")
    ctx.touch(wm)
    _cumulative_patches(ctx, r1, wm)
    # ---- R3
    cli_mod = repo.module(CLI + "cli.py")
    ctx.touch_file(cli_mod.relpath)
    added = set()
    for c in A.calls_in(cli_mod.tree):
        if A.call_attr(c) == "add_command" and c.args:
            d = A.dotted(c.args[0])
            if d:
                added.add(d)
    for fn, f, group, params in all_cmds:
        mod = fn[:-3]
        direct = f"{mod}.{f.name}" in added
        via_group = f"{mod}.{group}" in added
        if direct or via_group:
            ctx.holds(r3, f"{CLI}{fn}::{f.name}", "registered " + ("directly" if direct else f"through group {group}"))
        else:
            ctx.violated(r3, (cli_mod.relpath, "<module>"), f"pyhf.add_command({mod}.{f.name})", f"subcommand `{f.name}` is decorated as a click command but never added to the top-level `pyhf` group", node=f.node)


# ----------------------------------------------------------------------
def _calls_named(fn_node, name):
    out = []
    for c in A.calls_in(fn_node):
        if A.call_attr(c) == name:
            out.append(c)
    return out


def _reaches(repo, f, fd: FlowDeps, deps: Deps, py, callee, formal, value_typed=False, _depth=0):
    ok, why = _reaches_here(repo, f, fd, deps, py, callee, formal, value_typed)
    if ok or _depth >= 2:
        return ok, why
    # the command hands the option to a helper of its own module (`_configure_backend(backend, optimizer, optconf)`): the
    # question continues there, about the helper's parameter that receives it
    for c in A.calls_in(f.node):
        if not isinstance(c.func, ast.Name):
            continue
        kind, g = repo.resolve_name(f.module, c.func.id)
        if kind != "func" or g.module is not f.module or g.node is f.node or g.cls is not None:
            continue
        b = A.bind_args(c, g.node)
        st = fd.stmt_of.get(id(c))
        for formal_g, actual in b.items():
            if isinstance(actual, ast.AST) and fd.depends_on(actual, py, at=st):
                ok2, why2 = _reaches(repo, g, FlowDeps(g.node), Deps(g.node), formal_g, callee, formal, value_typed, _depth + 1)
                if ok2:
                    return True, f"through {g.qualname}({formal_g}): {why2}"
    return ok, why


def _reaches_here(repo, f, fd: FlowDeps, deps: Deps, py, callee, formal, value_typed=False):
    if callee == "@open":
        for c in A.calls_in(f.node):
            if A.call_attr(c) in ("open", "open_file") and c.args and fd.depends_on(c.args[0], py, at=fd.stmt_of.get(id(c))):
                return True, "opened as a file"
        return False, "never opened"
    if callee == "@getitem":
        for n in ast.walk(f.node):
            if isinstance(n, ast.Subscript) and isinstance(n.ctx, ast.Load) and py in A.names_loaded(n.slice):
                return True, f"lookup {A.short(n, 40)}"
        return False, "never used as lookup key"
    if callee == "CONTROL":
        # py must occur in the test of an if (or conditional expression) that guards a call of `formal`
        for n in ast.walk(f.node):
            if isinstance(n, ast.If) and (py in A.names_loaded(n.test) or deps.depends_on(n.test, py)):
                for st in n.body + n.orelse:
                    if any(A.call_attr(c) == formal for c in A.calls_in(st)):
                        return True, f"guards {formal}(...)"
            if isinstance(n, ast.IfExp) and (py in A.names_loaded(n.test) or deps.depends_on(n.test, py)):
                for arm in (n.body, n.orelse):
                    if any(A.call_attr(c) == formal for c in ast.walk(arm) if isinstance(c, ast.Call)):
                        return True, f"selects {formal}(...)"
        return False, f"does not control any call of {formal}"
    calls = _calls_named(f.node, callee)
    if not calls:
        # the option may go to ANOTHER function of the library module the contract's callee lives in (a new entry point doing the
        # same work): which parameter of that function means what is not in the contract table -- not decidable here
        rel_c = CALLEES.get(callee, (None, None))[0]
        for c in A.calls_in(f.node):
            nm = A.dotted(c.func) or ""
            kind, g = repo.resolve_name(f.module, nm) if nm else (None, None)
            if kind == "func" and g.relpath == rel_c and g.cls is None and any(fd.depends_on(a, py, at=fd.stmt_of.get(id(c))) for a in list(c.args) + [k.value for k in c.keywords]):
                return None, f"`{py}` is handed to {nm}(...), another function of {rel_c} than the documented {callee}(...): extend the contract table to decide it"
        return False, f"no call of {callee} in the command"
    rel, qual = CALLEES[callee]
    target = repo.func(rel, qual)
    is_method = qual.endswith(".__init__") or "." in qual
    last_why = ""
    want_kw = formal.startswith("**")
    fname = formal.lstrip("*")
    for c in calls:
        b = A.bind_args(c, target.node, skip_self=is_method)
        actual = b.get(fname)
        if actual is None:
            # keyword consumed through the callee's **kwargs
            for k, v in b.items():
                if isinstance(v, dict) and fname in v:
                    actual = v[fname]
        if actual is None:
            last_why = f"{A.short(c, 70)} does not pass `{fname}`"
            continue
        st = fd.stmt_of.get(id(c))
        if fd.depends_on(actual, py, at=st):
            alt = _altered(f, py, actual) if value_typed else None
            if alt:
                return False, f"{fname} <- {A.short(actual, 40)}, but the option value is altered on the way ({alt}): the library is called with something else than what the user asked for"
            return True, f"{fname} <- {A.short(actual, 40)}" + (" (unchanged)" if value_typed else "")
        last_why = f"{fname} <- {A.short(actual, 40)} which does not derive from `{py}`"
    return False, last_why


def _value_typed(deco):
    """A click option whose value is a choice / flag / number / plain string (not a file or path to be loaded)."""
    kws = {k.arg: k.value for k in deco.keywords}
    t = kws.get("type")
    if t is not None:
        txt = A.unparse(t)
        if "Choice" in txt or txt in ("float", "int", "str", "bool"):
            return True
        return False
    if "is_flag" in kws and A.const_value(kws["is_flag"]) is True:
        return True
    if any("/" in (A.const_value(a) or "") for a in deco.args if isinstance(A.const_value(a), str)):
        return True  # --flag/--no-flag
    return False


def _trivial_copy(e, py):
    """e is `py`, or a container copy of it (dict(py), list(py), tuple(py))."""
    if isinstance(e, ast.Name) and e.id == py:
        return True
    if isinstance(e, ast.Call) and isinstance(e.func, ast.Name) and e.func.id in ("dict", "list", "tuple", "set", "sorted") and len(e.args) == 1 and not e.keywords:
        return _trivial_copy(e.args[0], py)
    return False


def _altered(f, py, actual):
    """None if `actual` is the option variable unchanged (or a container copy); else a short description."""
    stores = [n for n in ast.walk(f.node) if isinstance(n, (ast.Assign, ast.AugAssign, ast.AnnAssign)) and any(isinstance(t, ast.Name) and t.id == py for t in (n.targets if isinstance(n, ast.Assign) else [n.target]))]
    for st in stores:
        v = st.value
        if isinstance(st, ast.AugAssign) or v is None or not _trivial_copy(v, py):
            return f"`{A.short(st, 60)}` rebinds the option"
    if _trivial_copy(actual, py):
        return None
    if isinstance(actual, ast.Name):
        defs = [n for n in ast.walk(f.node) if isinstance(n, ast.Assign) and any(isinstance(t, ast.Name) and t.id == actual.id for t in n.targets)]
        if defs and all(_trivial_copy(d.value, py) for d in defs):
            return None
        if defs:
            return f"`{A.short(defs[0], 60)}`"
        return None
    return f"`{A.short(actual, 60)}` is computed from it"


def _cumulative_patches(ctx, rid, f):
    """for p in patches: X = JsonPatch(p).apply(Y)  -- Y must be X (each patch applied on top of the previous result)."""
    for loop in [n for n in ast.walk(f.node) if isinstance(n, ast.For)]:
        for st in loop.body:
            if isinstance(st, ast.Assign) and isinstance(st.value, ast.Call) and A.call_attr(st.value) == "apply" and "JsonPatch" in A.unparse(st.value.func) and st.value.args:
                tgt = A.unparse(st.targets[0])
                arg = A.unparse(st.value.args[0])
                site = f"{f.relpath}::{f.qualname}: {A.short(st, 70)}"
                if tgt == arg:
                    ctx.holds(rid, site, "patches applied cumulatively (loop-carried)")
                else:
                    ctx.violated(rid, f, st, f"each patch is applied to `{arg}` instead of the running result `{tgt}`: with several -p/--patch options only the last one takes effect", expected=f"{tgt} = ...apply({tgt})", found=A.short(st, 80), node=st)


def _optimizer_after_backend(ctx, rid, f):
    """A set_backend(<backend only>) call resets the optimiser to the default: none may run after the call that installs --optimizer."""
    from ..cfg import CFG
    calls = [c for c in A.calls_in(f.node) if A.call_attr(c) == "set_backend"]
    if len(calls) < 2:
        return
    pm = A.parent_map(f.node)
    withopt = [c for c in calls if len(c.args) >= 2 or any(k.arg == "custom_optimizer" for k in c.keywords)]
    plain = [c for c in calls if c not in withopt]
    if not withopt:
        return
    g = CFG.build(f.node.body)
    for o in withopt:
        on = g.node_of(A.stmt_of(o, pm))
        reach = g.reachable(on) if on is not None else set()
        late = [b for b in plain if g.node_of(A.stmt_of(b, pm)) in reach and g.node_of(A.stmt_of(b, pm)) != on]
        site = f"{f.relpath}::{f.qualname}: {A.short(o, 60)}"
        if late:
            ctx.violated(rid, f, late[0], f"`{A.short(late[0], 50)}` can run after the optimizer was installed; set_backend without an optimizer resets it to the default, so --optimizer/--optconf are lost whenever a non-default --backend is selected", expected="install the optimizer after the backend switch", node=late[0])
        else:
            ctx.holds(rid, site, "no backend-only set_backend call can follow the optimizer installation")


def _file_vs_stdout(ctx, rid, f, via=None):
    dumps = [c for c in A.calls_in(f.node) if A.call_name(c) == "json.dumps"]
    dump = [c for c in A.calls_in(f.node) if A.call_name(c) == "json.dump"]
    if not dumps and not dump:
        return
    if not dump or not dumps:
        # one arm only (inspect writes JSON only to file; digest only to stdout) -- explained exceptions
        ctx.holds(rid, f"{f.relpath}::{f.qualname}", "single JSON arm (documented: no second arm to agree with)")
        return

    def opts(c):
        return {k.arg: A.short(k.value, 20) for k in c.keywords if k.arg in ("indent", "sort_keys", "default", "cls", "separators", "ensure_ascii")}

    for a in dumps:
        for b in dump:
            oa, ob = opts(a), opts(b)
            xa = A.short(a.args[0], 60) if a.args else "?"
            xb = A.short(b.args[0], 60) if b.args else "?"
            if xa != xb:
                ctx.violated(rid, f, b, f"file arm serialises `{xb}` but stdout arm serialises `{xa}`", expected=xa, found=xb, node=b)
            elif oa != ob:
                ctx.violated(rid, f, b, f"file and stdout arms use different JSON encoder options: stdout {oa}, file {ob}", expected=str(oa), found=str(ob), node=b)
            else:
                ctx.holds(rid, f"{f.relpath}::{f.qualname}{' (for ' + via.qualname + ')' if via is not None else ''}: {xa}", f"same object, options {oa}")


def _optconf_parse(ctx, rid, repo):
    from ..alg import Interp, Obj, PyFunc, RaisedInFragment, Undecided
    from ..objmodel import Instance, World
    UT = "src/pyhf/utils.py"
    errs = (Undecided, KeyError, TypeError, ValueError, IndexError, AttributeError)
    f = repo.func(UT, "options_from_eqdelimstring") if repo.has_func(UT, "options_from_eqdelimstring") else None
    cls = repo.cls(UT, "EqDelimStringParamType")
    if f is None or cls is None or "convert" not in cls.methods:
        ctx.unrecognised(rid, repo.module(UT), "options_from_eqdelimstring / EqDelimStringParamType.convert", "not found")
        return
    ctx.touch(f)
    ctx.touch(cls.methods["convert"])
    docs = []
    failed = []

    def safe_load(a, k):
        docs.append(a[0])
        return Obj("LOADED", {"doc": a[0]}, closed=True)

    def fail(recv, a, k):
        failed.append(a[0] if a else None)
        from ..alg import _PyRaise
        raise _PyRaise("click.BadParameter")

    try:
        w = World({"__strict__": True, "safe_load": safe_load, "load": safe_load, ".fail": fail}, module_env={"yaml": Obj("yaml"), "click": Obj("click")})
        w.add_func(f).add_class(cls)
        opts = ["maxiter=1000", "tolerance=1e-3", "method=a=b", "solver_options={'ftol': 1e-06}", "verbose=true"]
        out = w.call_func(f, [list(opts)], {})
        want = "maxiter: 1000\ntolerance: 1e-3\nmethod: a=b\nsolver_options: {'ftol': 1e-06}\nverbose: true"
        if not docs or docs[-1] != want or not (isinstance(out, Obj) and out.name == "LOADED"):
            ctx.violated(rid, f, "options_from_eqdelimstring", "the options are not handed to the YAML loader as one `key: value` line each, split at the first '=' and in the order given (a value containing '=' is cut, keys and values are exchanged, or the loader's result is not what is returned)", expected=repr(want), found=repr(docs[-1] if docs else None), node=f.node)
        else:
            ctx.holds(rid, f"{UT}::options_from_eqdelimstring", f"{len(opts)} options -> {want!r} -> the loader's result")
        inst = Instance(cls)
        del docs[:]
        one = w.call_method(inst, "convert", ["tolerance=1e-3", Obj("param"), Obj("ctx")])
        ok_one = docs == ["tolerance: 1e-3"] and isinstance(one, Obj) and one.name == "LOADED"
        refused = False
        try:
            w.call_method(inst, "convert", ["no_equal_sign", Obj("param"), Obj("ctx")])
        except RaisedInFragment:
            refused = True
        if ok_one and refused:
            ctx.holds(rid, f"{UT}::EqDelimStringParamType.convert", "one option -> one line through the same parser; a string without '=' is refused")
        else:
            ctx.violated(rid, cls.methods["convert"], "EqDelimStringParamType.convert", "the click parameter type does not parse a single `key=value` through the shared parser / does not refuse a string without '='", expected="['tolerance: 1e-3'] and a refusal", found=f"{docs} refused={refused}", node=cls.methods["convert"].node)
    except RaisedInFragment as e:
        ctx.violated(rid, f, "optconf parsing", f"raises {e.exc_name} on well-formed options", node=f.node)
    except errs as e:
        ctx.unrecognised(rid, f, "optconf parsing", f"not interpretable: {type(e).__name__}: {e}")


def _import_time_defaults(ctx, rid, repo):
    PROCESS_STATE = {"cwd", "getcwd", "getcwdb", "getenv", "now", "today", "time", "gettempdir", "expanduser", "home", "environ.get", "getuser", "getpid", "mkdtemp"}
    n = 0
    for fn in ("infer.py", "spec.py", "patchset.py", "rootio.py", "cli.py", "complete.py"):
        try:
            m = repo.module(CLI + fn)
        except Exception:  # noqa: BLE001
            continue
        ctx.touch_file(m.relpath)
        for f in m.funcs.values():
            for d in getattr(f.node, "decorator_list", []):
                if not (isinstance(d, ast.Call) and (A.dotted(d.func) or "").split(".")[-1] in ("option", "argument")):
                    continue
                kw = next((k for k in d.keywords if k.arg == "default"), None)
                if kw is None:
                    continue
                n += 1
                name = next((A.const_value(a) for a in d.args if isinstance(A.const_value(a), str)), "?")
                site = f"{m.relpath}::{f.qualname} {name}"
                calls = [c for c in ast.walk(kw.value) if isinstance(c, ast.Call)]
                bad = [c for c in calls if (A.dotted(c.func) or "").split(".")[-1] in PROCESS_STATE or any((A.dotted(c.func) or "").endswith(s_) for s_ in PROCESS_STATE)]
                if bad:
                    ctx.violated(rid, f, f"default of {name}", f"the default of `{name}` is `{A.short(kw.value, 40)}`, evaluated when {m.relpath} is imported: a process that changes its working directory (environment, ...) afterwards gets the value of import time, so the command reads / writes somewhere else than documented", expected="a literal, or the callable itself (click calls it at invocation)", found=A.short(kw.value, 40), node=kw.value)
                elif calls:
                    ctx.unrecognised(rid, f, f"default of {name}", f"the default `{A.short(kw.value, 40)}` is computed by a call this rule does not know")
                else:
                    ctx.holds(rid, site, f"default {A.short(kw.value, 30)}: a literal / an uncalled callable")
    ctx.extra["click_defaults_seen"] = n


def _static_value(repo, m, node):
    """value of a default expression without running anything: literals, and `Class.attr[<int>]` / `Class.attr` over class-level
    literal assignments; the sentinel `...` when it cannot be told"""
    if A.is_const(node):
        return A.const_value(node)
    if isinstance(node, ast.Subscript) and isinstance(A.const_value(node.slice), int):
        base = _static_value(repo, m, node.value)
        if isinstance(base, (list, tuple)) and -len(base) <= A.const_value(node.slice) < len(base):
            return base[A.const_value(node.slice)]
        return ...
    d = A.dotted(node)
    if d and "." in d:
        head, attr = d.rsplit(".", 1)
        kind, obj = repo.resolve_name(m, head)
        if kind == "class" and attr in getattr(obj, "attrs", {}):
            return A.const_value(obj.attrs[attr]) if A.is_const(obj.attrs[attr]) else ...
    return ...


def _default_agreement(ctx, rid, repo):
    LIB = {"combine": ("src/pyhf/workspace.py", "Workspace.combine"), "hypotest": ("src/pyhf/infer/__init__.py", "hypotest"), "digest": ("src/pyhf/utils.py", "digest"),
           "prune": ("src/pyhf/workspace.py", "Workspace.prune"), "rename": ("src/pyhf/workspace.py", "Workspace.rename"), "fit": ("src/pyhf/infer/mle.py", "fit"),
           "model": ("src/pyhf/workspace.py", "Workspace.model"), "sorted": ("src/pyhf/workspace.py", "Workspace.sorted")}
    for (fn, cname), table in sorted(CONTRACT.items()):
        try:
            m = repo.module(CLI + fn)
        except Exception:  # noqa: BLE001
            continue
        f = next((g for q, g in m.funcs.items() if g.node.name == cname), None)
        if f is None:
            continue
        decl = {}
        for d in getattr(f.node, "decorator_list", []):
            if isinstance(d, ast.Call) and (A.dotted(d.func) or "").split(".")[-1] in ("option", "argument"):
                strs = [A.const_value(a) for a in d.args if isinstance(A.const_value(a), str)]
                kw = {k.arg: k.value for k in d.keywords if k.arg}
                pname = next((s_.lstrip("-").replace("-", "_") for s_ in strs if s_.startswith("--")), strs[0].replace("-", "_") if strs else None)
                if pname and "default" in kw:
                    decl[pname] = (strs, kw["default"], kw)
        for opt, targets in sorted(table.items()):
            if opt not in decl:
                continue
            strs, dnode, kw = decl[opt]
            if any((k_ == "multiple" and A.const_value(v_) is True) or (k_ == "is_flag" and A.const_value(v_) is True) for k_, v_ in kw.items()) and A.const_value(dnode) in (None, False):
                pass
            for callee, param in targets:
                if callee not in LIB or param is None:
                    continue
                rel, q = LIB[callee]
                if not repo.has_func(rel, q):
                    continue
                lf = repo.func(rel, q)
                ldef = A.param_defaults(lf.node).get(param)
                if ldef is None:
                    continue
                cli_v, lib_v = _static_value(repo, m, dnode), _static_value(repo, lf.module, ldef)
                site = f"{m.relpath}::{cname} {'/'.join(strs)} -> {q}({param}=...)"
                if cli_v is ... or lib_v is ...:
                    ctx.unrecognised(rid, f, f"default of {'/'.join(strs)}", f"cannot tell statically what `{A.short(dnode, 40)}` / `{A.short(ldef, 40)}` evaluate to")
                elif cli_v is None or (isinstance(cli_v, (list, tuple, dict)) and not cli_v and not lib_v):
                    ctx.holds(rid, site, "the option defaults to nothing (None / an empty collection): nothing is forwarded unless given")
                elif isinstance(cli_v, (list, tuple)) and len(cli_v) == 1 and A.const_value(kw.get("multiple")) is True and cli_v[0] == lib_v:
                    ctx.holds(rid, site, f"repeatable option defaulting to the single value {lib_v!r}, the library's default")
                elif cli_v == lib_v:
                    ctx.holds(rid, site, f"both default to {cli_v!r}")
                else:
                    ctx.violated(rid, f, f"default of {'/'.join(strs)}", f"`pyhf {cname}` without {strs[-1]} runs {q} with {param}={cli_v!r}; the library call without that argument uses {lib_v!r}: the command line does not return what the library returns for the same inputs", expected=repr(lib_v), found=f"{A.short(dnode, 40)} = {cli_v!r}", node=dnode)


def _mount_option_type(ctx, rid, repo):
    from ..alg import Obj, PyFunc, RaisedInFragment, Undecided, _PyRaise
    from ..objmodel import World
    U = "src/pyhf/utils.py"
    cls = repo.module(U).classes.get("VolumeMountPath")
    if cls is None or "convert" not in cls.methods:
        ctx.unrecognised(rid, (U, "<module>"), "VolumeMountPath", "the option type of -v/--mount is not found")
        return
    for m_ in cls.methods.values():
        ctx.touch(m_)
    errs = (Undecided, KeyError, TypeError, ValueError, IndexError, AttributeError)
    sym = lambda tag: (lambda a, k: f"{tag}<{a[0]}>")
    failed = []

    def fail(inst, a, k):
        failed.append(a[0] if a else None)
        raise _PyRaise("BadParameter")

    def base_init(inst, a, k):
        inst.attrs.update({"resolve_path": k.get("resolve_path", False), "exists": k.get("exists", False), "name": "path", "type": None})
        return None

    base = {"__init__": base_init, "convert": lambda inst, a, k: f"CLICK<{a[0]}>", "coerce_path_result": lambda inst, a, k: a[0], "fail": fail}
    for lab, resolve in (("resolve_path=True (as cli/rootio.py declares it)", True), ("resolve_path=False", False)):
        try:
            ext = {"__strict__": True, "gettext": lambda a, k: a[0], "_": lambda a, k: a[0]}
            for nm_ in ("realpath", "abspath", "normpath", "expanduser", "expandvars", "normcase", "resolve", "absolute", "fspath"):
                ext[nm_] = sym(nm_.upper())
            w = World(ext, module_env={"click": Obj("click"), "os": Obj("os"), "Path": Obj("Path")})
            w.add_foreign_base("Path", base)
            w.add_class(cls)
            inst = w.new(cls, [], {"exists": True, "resolve_path": resolve})
            out = w.call_method(inst, "convert", ["host/dir:out/sub", Obj("PARAM"), Obj("CTX")], {})
            got = tuple(out) if isinstance(out, (tuple, list)) else out
            if got == ("CLICK<host/dir>", "out/sub"):
                ctx.holds(rid, f"{U}::VolumeMountPath.convert ['host/dir:out/sub', {lab}]", "(click.Path.convert('host/dir'), 'out/sub')")
            else:
                ctx.violated(rid, cls.methods["convert"], f"-v HOST:MOUNT [{lab}]", "the mount half of a `-v host:mount` option does not reach readxml.parse as typed (the host half converted by click): a relative mount point that is resolved or normalised no longer equals the path prefix written in the XML files, the mount is silently ignored and the files are read from wherever the un-remapped path points -- possibly a later export into the same directory", expected="('CLICK<host/dir>', 'out/sub')", found=str(got))
        except RaisedInFragment as e:
            ctx.violated(rid, cls.methods["convert"], f"-v HOST:MOUNT [{lab}]", f"a well-formed host:mount value is refused ({e.exc_name})")
        except errs as e:
            ctx.unrecognised(rid, cls.methods["convert"], f"-v HOST:MOUNT [{lab}]", f"not interpretable: {type(e).__name__}: {e}")
    try:
        del failed[:]
        ext = {"__strict__": True, "gettext": lambda a, k: a[0], "_": lambda a, k: a[0]}
        w = World(ext, module_env={"click": Obj("click"), "os": Obj("os")})
        w.add_foreign_base("Path", base)
        w.add_class(cls)
        inst = w.new(cls, [], {"exists": True, "resolve_path": True})
        refused = False
        try:
            w.call_method(inst, "convert", ["no-colon-here", Obj("PARAM"), Obj("CTX")], {})
        except RaisedInFragment:
            refused = True
        if refused and failed:
            ctx.holds(rid, f"{U}::VolumeMountPath.convert ['no-colon-here']", "refused through self.fail")
        else:
            ctx.violated(rid, cls.methods["convert"], "-v value without a colon", "a -v value that is not host:mount is not refused through click's own failure path", expected="self.fail(...)", found="accepted" if not refused else "another exception")
    except errs as e:
        ctx.unrecognised(rid, cls.methods["convert"], "-v value without a colon", f"not interpretable: {type(e).__name__}: {e}")
