"""VIEW -- the index machinery shared by C01 / C02 / C05 / C12, decided by interpreting it.

`_TensorViewer`, `ParamViewer` and their helper functions are interpreted (object model over `alg.Interp`, tensors
as nested lists of concrete shape with symbolic entries) on configurations chosen to expose index slips:
interleaved, non-contiguous index sets; a par_map listed in an order different from its slices; a selection in
non-sorted order; flat and batched data."""

from __future__ import annotations

from .. import astutil as A
from .. import listnp
from ..alg import FragmentFault, Obj, Poly, PyFunc, Undecided, to_poly
from ..objmodel import World

TC, PV = "src/pyhf/tensor/common.py", "src/pyhf/parameters/paramview.py"
RULE_TEXT = ("VIEW: interpreting _TensorViewer on interleaved index sets, stitch puts the k-th entry of part i at position "
             "indices[i][k] and split inverts it (flat and batched data); interpreting ParamViewer(shape, par_map, selection) with "
             "par_map listed out of slice order and an unsorted selection, index_selection[i][row] are the flat positions of the "
             "i-th selected set in that row and get(data) returns the data at those positions, component-major")


def world(repo, extra=None):
    ext = listnp.externals()
    the_tensorlib = Obj("tensorlib", {"name": "numpy", "precision": "64b"})  # ONE backend object per world: what code keys on it stays equal
    ext.update({"subscribe": lambda a, k: PyFunc(lambda a2, k2: None, "subscriber"), "get_backend": lambda a, k: (the_tensorlib, None)})
    ext.update(extra or {})
    w = World(ext, module_env={"pyhf": Obj("pyhf", {"default_backend": Obj("default_backend")}), "events": Obj("events")})
    w.add_class(repo.cls(TC, "_TensorViewer")).add_class(repo.cls(PV, "ParamViewer"))
    for rel, name in ((TC, "_tensorviewer_from_slices"), (TC, "_tensorviewer_from_sizes"), (PV, "_tensorviewer_from_parmap"), (PV, "extract_index_access")):
        w.add_func(repo.func(rel, name))
    return w


def _s(v):
    if isinstance(v, (list, tuple)):
        return [_s(x) for x in v]
    return str(to_poly(v))


def check(ctx, rid):
    repo = ctx.repo
    for rel, cname in ((TC, "_TensorViewer"), (PV, "ParamViewer")):
        for m in repo.cls(rel, cname).methods.values():
            ctx.touch(m)
    for rel, name in ((TC, "_tensorviewer_from_slices"), (TC, "_tensorviewer_from_sizes"), (PV, "_tensorviewer_from_parmap"), (PV, "extract_index_access")):
        ctx.touch(repo.func(rel, name))
    tvc, pvc = repo.cls(TC, "_TensorViewer"), repo.cls(PV, "ParamViewer")
    c, at = Poly.const, Poly.atom
    errs = (Undecided, KeyError, TypeError, ValueError, IndexError, AttributeError)

    # ---------------- _TensorViewer
    # interleaved, reversed-block, contiguous-in-order, contiguous-out-of-order and "first indices ascending but interleaved" layouts
    for parts in ([[1, 3], [0, 2]], [[4], [0, 1], [2, 3]], [[0, 1, 2], [3, 4]], [[2, 3], [0, 1]], [[0, 3, 4], [1, 2]]):
        n = sum(len(p) for p in parts)
        lab = str(parts)
        site = f"{TC}::_TensorViewer {lab}"
        try:
            w = world(repo)
            tv_plain = w.new(tvc, [[[c(i) for i in p] for p in parts]], {})
            tv_sized = w.new(tvc, [[[c(i) for i in p] for p in parts]], {"batch_size": c(2)})  # as the batched model builds its viewers
            for batched, tv in ((False, tv_plain), (True, tv_plain), (True, tv_sized), (False, tv_sized)):
                rows = 2 if batched else 1
                data = [[[at(f"p{i}k{k}r{r}") for k in range(len(p))] for r in range(rows)] for i, p in enumerate(parts)]
                arg = data if batched else [d[0] for d in data]
                st = w.call_method(tv, "stitch", [arg])
                want = [[None] * n for _ in range(rows)]
                for i, p in enumerate(parts):
                    for k, pos in enumerate(p):
                        for r in range(rows):
                            want[r][pos] = f"p{i}k{k}r{r}"
                want_st = want if batched else want[0]
                if _s(st) != want_st:
                    ctx.violated(rid, tvc.methods["stitch"], f"_TensorViewer.stitch {lab} [{'batched' if batched else 'flat'}]", "stitch does not place the k-th entry of part i at position indices[i][k]", expected=str(want_st), found=str(_s(st)))
                    continue
                full = [[at(f"x{j}r{r}") for j in range(n)] for r in range(rows)]
                sp = w.call_method(tv, "split", [full if batched else full[0]])
                want_sp = [[[f"x{pos}r{r}" for pos in p] for r in range(rows)] for p in parts]
                want_sp = want_sp if batched else [x[0] for x in want_sp]
                if _s(sp) != want_sp:
                    ctx.violated(rid, tvc.methods["split"], f"_TensorViewer.split {lab} [{'batched' if batched else 'flat'}]", "split does not return, for part i, the entries at positions indices[i]", expected=str(want_sp), found=str(_s(sp)))
                    continue
                # the SAME buffer object refilled in place (a pre-allocated array holding the next set of datasets): the next
                # split / stitch works on the current content
                buf = full if batched else full[0]
                for r in range(rows):
                    for j in range(n):
                        (buf[r] if batched else buf)[j] = at(f"y{j}r{r}")
                sp2 = w.call_method(tv, "split", [buf])
                want_sp2 = [[[f"y{pos}r{r}" for pos in p] for r in range(rows)] for p in parts]
                want_sp2 = want_sp2 if batched else [x[0] for x in want_sp2]
                if _s(sp2) != want_sp2:
                    ctx.violated(rid, tvc.methods["split"], f"_TensorViewer.split {lab} [{'batched' if batched else 'flat'}, same buffer refilled in place]", "a second split of the same array object after its content was replaced in place returns parts of the EARLIER content: something remembered from the previous call is keyed on the object, not on its values", expected=str(want_sp2), found=str(_s(sp2)))
                    continue
                for i, p in enumerate(parts):
                    for k in range(len(p)):
                        for r in range(rows):
                            (arg[i][r] if batched else arg[i])[k] = at(f"q{i}k{k}r{r}")
                st2 = w.call_method(tv, "stitch", [arg])
                want2 = [[None] * n for _ in range(rows)]
                for i, p in enumerate(parts):
                    for k, pos in enumerate(p):
                        for r in range(rows):
                            want2[r][pos] = f"q{i}k{k}r{r}"
                if _s(st2) != (want2 if batched else want2[0]):
                    ctx.violated(rid, tvc.methods["stitch"], f"_TensorViewer.stitch {lab} [{'batched' if batched else 'flat'}, same part buffers refilled in place]", "a second stitch of the same part objects after their content was replaced in place returns the EARLIER content", expected=str(want2 if batched else want2[0]), found=str(_s(st2)))
                    continue
                st = st2
                back = w.call_method(tv, "split", [st])
                if _s(back) == _s(arg):
                    ctx.holds(rid, f"{site} [{'batched' if batched else 'flat'}]", "stitch by target position, split by position, split(stitch(d)) == d")
                else:
                    ctx.violated(rid, tvc.methods["split"], f"_TensorViewer round trip {lab}", "split(stitch(d)) != d", expected=str(_s(arg)), found=str(_s(back)))
        except FragmentFault as e:
            ctx.violated(rid, tvc, f"_TensorViewer {lab}", f"on well-formed arguments the viewer indexes outside its own tensors -- also when flat and batched tensors are handled by ONE viewer object one after the other: {e}")
        except errs as e:
            ctx.unrecognised(rid, tvc, f"_TensorViewer {lab}", f"not interpretable: {type(e).__name__}: {e}")

    # ---------------- split by names
    try:
        w = world(repo)
        tv = w.new(tvc, [[[c(2), c(3)], [c(0), c(1)], [c(4)]]], {"names": ["n1", "n0", "n2"]})
        sp = w.call_method(tv, "split", [[at(f"x{j}") for j in range(5)]], {"selection": ["n2", "n1"]})
        if _s(sp) == [["x4"], ["x2", "x3"]]:
            ctx.holds(rid, f"{TC}::_TensorViewer.split(selection=names)", "parts selected by name, in the order asked")
        else:
            ctx.violated(rid, tvc.methods["split"], "_TensorViewer.split(selection)", "a named selection does not return the index sets registered under those names, in the requested order", expected="[[x4], [x2, x3]]", found=str(_s(sp)))
    except FragmentFault as e:
        ctx.violated(rid, tvc, "_TensorViewer.split(selection)", f"on well-formed arguments the viewer indexes outside its own tensors -- also when flat and batched tensors are handled by ONE viewer object one after the other: {e}")
    except errs as e:
        ctx.unrecognised(rid, tvc, "_TensorViewer.split(selection)", f"not interpretable: {type(e).__name__}: {e}")

    # ---------------- ParamViewer
    def sl(s, e):
        return Obj("slice", {"start": c(s), "stop": c(e)})

    # two models' parameter layouts with the SAME parameter-set names, the same total and the same selections, in one world
    # (module-level state of paramview.py / tensor/common.py shared): the second layout's viewers address its own slices
    layouts = [{"b": (2, 5), "z": (0, 2), "c": (5, 6), "a": (6, 8)},  # neither listing nor alphabetical order is slice order
               {"a": (0, 2), "c": (2, 3), "z": (3, 5), "b": (5, 8)}]
    npars = 8
    shared = world(repo)
    for li, slices, selection, shape in [(li, sl_, sel_, sh_) for li, sl_ in enumerate(layouts) for sel_ in (["c", "z"], ["a", "b", "z"], ["b"]) for sh_ in ((npars,), (2, npars), (1, npars))]:
        if True:
            rows = shape[0] if len(shape) > 1 else None
            lab = f"selection={selection} shape={shape}" + ("" if li == 0 else " [second layout with the same names, same process]")
            site = f"{PV}::ParamViewer [{lab}]"
            try:
                w = shared
                par_map = {n: {"slice": sl(*se), "paramset": Obj(f"ps_{n}")} for n, se in slices.items()}
                pv = w.new(pvc, [tuple(c(x) for x in shape), par_map, list(selection)], {})
                flat = lambda r, j: (r or 0) * npars + j
                if rows is None:
                    want_sel = [[str(flat(0, j)) for j in range(*slices[n])] for n in selection]
                    want_cat = [x for part in want_sel for x in part]
                    data = [at(f"d{j}") for j in range(npars)]
                    want_get = [f"d{j}" for n in selection for j in range(*slices[n])]
                else:
                    want_sel = [[[str(flat(r, j)) for j in range(*slices[n])] for r in range(rows)] for n in selection]
                    want_cat = [[str(flat(r, j)) for r in range(rows)] for n in selection for j in range(*slices[n])]
                    data = [[at(f"d{r}_{j}") for j in range(npars)] for r in range(rows)]
                    want_get = [[f"d{r}_{j}" for r in range(rows)] for n in selection for j in range(*slices[n])]
                got_sel, got_cat = _s(pv.attrs.get("index_selection")), _s(pv.attrs.get("indices_concatenated"))
                got_get = _s(w.call_method(pv, "get", [data]))
                if got_sel == want_sel and got_cat == want_cat and got_get == want_get:
                    ctx.holds(rid, site, f"index_selection {want_sel}; get -> {want_get}")
                else:
                    what = "index_selection" if got_sel != want_sel else ("indices_concatenated" if got_cat != want_cat else "get(data)")
                    ctx.violated(rid, pvc.methods["__init__"], f"ParamViewer [{lab}]", f"the parameter viewer's {what} does not address the selected parameter sets' own slices (row-major flat positions row*npars + j, j in the set's slice; component-major when batched)", expected=str({"index_selection": want_sel, "indices_concatenated": want_cat, "get": want_get}[what if what != "get(data)" else "get"]), found=str({"index_selection": got_sel, "indices_concatenated": got_cat, "get": got_get}[what if what != "get(data)" else "get"]))
            except FragmentFault as e:
                ctx.violated(rid, pvc, f"ParamViewer [{lab}]", f"on well-formed arguments the viewer indexes outside its own tensors -- also when flat and batched tensors are handled by ONE viewer object one after the other: {e}")
            except errs as e:
                ctx.unrecognised(rid, pvc, f"ParamViewer [{lab}]", f"not interpretable: {type(e).__name__}: {e}")
    # empty selection
    try:
        w = world(repo)
        par_map = {n: {"slice": sl(*se)} for n, se in slices.items()}
        pv = w.new(pvc, [(c(npars),), par_map, []], {})
        g = w.call_method(pv, "get", [[at(f"d{j}") for j in range(npars)]])
        if not pv.attrs.get("index_selection") and g is None:
            ctx.holds(rid, f"{PV}::ParamViewer [empty selection]", "no indices; get -> None")
        else:
            ctx.violated(rid, pvc.methods["get"], "ParamViewer [empty selection]", "a viewer with nothing selected must select nothing", found=f"index_selection={pv.attrs.get('index_selection')}, get={g}")
    except FragmentFault as e:
        ctx.violated(rid, pvc, "ParamViewer [empty selection]", f"on well-formed arguments the viewer indexes outside its own tensors -- also when flat and batched tensors are handled by ONE viewer object one after the other: {e}")
    except errs as e:
        ctx.unrecognised(rid, pvc, "ParamViewer [empty selection]", f"not interpretable: {type(e).__name__}: {e}")
