"""C06 -- profile-likelihood test statistics obey their case definitions.

  R1 TABLE  get_test_stat: 'q0'->q0, 'q'->qmu, 'qtilde'->qmu_tilde; unknown -> InvalidTestStatistic
  R2 FWD    the five public statistics forward all arguments; qmu/qmu_tilde use the
            one-sided helper, tmu/tmu_tilde the two-sided one, q0 the two-sided helper
  R3 ALG    two-sided helper: statistic == clip(2NLL(fixed POI) - 2NLL(free), 0, None);
            both fits receive the same data/model/init/bounds/fixed; the fixed fit gets mu
  R4 CMP    one-sided helper selects 0 where fitted POI > mu, else the two-sided value;
            q0 selects 0 where fitted POI < 0, else the two-sided value
  R5 path   q0 passes mu == 0 to the helper on every path
  R6 DEP    the fitted parameters returned are the pair the statistic was computed from
"""

from __future__ import annotations

import ast
from fractions import Fraction

from .. import astutil as A
from ..alg import Interp, Obj, Poly, Undecided, fn, to_poly
from ..dep import FlowDeps
from ..fwd import calls_to, check_forward

EXPLANATION = (
    "test_statistics.py is decided structurally and by abstract interpretation with the two fits replaced by opaque "
    "results (PARS_FIXED, NLL2_FIXED) / (PARS_FREE, NLL2_FREE): the two-sided helper must return "
    "clip(NLL2_FIXED - NLL2_FREE, 0, None) and exactly those parameter tensors; the one-sided helper and q0 are "
    "evaluated on the regions fitted-POI <, > threshold and must select 0 / the two-sided value with the published "
    "orientation; q0 is evaluated for mu = 0 and mu != 0 and must hand 0 to the helper; argument forwarding of all "
    "seven functions is checked against the callee signatures; get_test_stat's table is compared with the documented "
    "names. NOT decided: values of the fits, closed-form agreement, non-negativity beyond the clip."
)
ASSUMPTIONS = [
    "fit/fixed_poi_fit return (parameters, objective) when return_fitted_val=True",
    "tensorlib.where(mask, a, b) selects a where mask holds; tensorlib.clip(x, lo, max_value=None) clips from below",
]
TS = "src/pyhf/infer/test_statistics.py"
UT = "src/pyhf/infer/utils.py"
MLE = "src/pyhf/infer/mle.py"


# R2, R3, R6 recognise the helper structure of the pinned tree (who calls whom, with what); R7 decides the same clauses end
# to end (see Ctx.defer).  R4 and R5 evaluate MORE regions than R7 does and keep their own verdict.
DEFER = [(["C06.R2", "C06.R3", "C06.R4", "C06.R5", "C06.R6"], ["C06.R7"])]  # R7 walks all five statistics end to end, q0 with a non-zero mu handed in, fitted POI above and below


def _externals(record):
    def fixed_poi_fit(args, kw):
        record.setdefault("fixed_poi_fit", []).append((args, kw))
        if kw.get("return_fitted_val") is True:
            return (Poly.atom("PARS_FIXED"), Poly.atom("NLL2_FIXED"))
        return Poly.atom("PARS_FIXED")

    def fit(args, kw):
        record.setdefault("fit", []).append((args, kw))
        if kw.get("return_fitted_val") is True:
            return (Poly.atom("PARS_FREE"), Poly.atom("NLL2_FREE"))
        return Poly.atom("PARS_FREE")

    return {"fixed_poi_fit": fixed_poi_fit, "fit": fit}


def _env():
    return {
        "mu": Poly.atom("mu"), "data": Obj("data"), "pdf": Obj("pdf"), "init_pars": Obj("init_pars"),
        "par_bounds": Obj("par_bounds"), "fixed_params": Obj("fixed_params"), "log": Obj("log"),
    }


def run(ctx):
    repo = ctx.repo
    fns = {n: repo.func(TS, n) for n in ("_qmu_like", "_tmu_like", "qmu", "qmu_tilde", "tmu", "tmu_tilde", "q0")}
    for f in fns.values():
        ctx.touch(f)
    gts = repo.func(UT, "get_test_stat")
    ctx.touch(gts)

    # ---- R1
    r1 = ctx.rule("C06.R1", "TABLE: get_test_stat maps 'q0'->q0, 'q'->qmu, 'qtilde'->qmu_tilde (the functions of test_statistics) and raises InvalidTestStatistic otherwise", "TABLE", floor=4)
    want = {"q0": "q0", "q": "qmu", "qtilde": "qmu_tilde"}
    table = None
    for n in repo.walk_with_tables(gts):
        if isinstance(n, ast.Dict) and n.keys and all(k is not None and isinstance(A.const_value(k), str) for k in n.keys):
            if table is None or ("q0" in [A.const_value(k) for k in n.keys] and "q0" not in [A.const_value(k) for k in table.keys]):
                table = n  # the table that carries the documented names (an optional extension may add a second one)
    if table is None:
        ctx.unrecognised(r1, gts, "get_test_stat", "no literal name->function table")
    else:
        got = {}
        for k, v in zip(table.keys, table.values):
            kind, obj = repo.resolve_name(gts.module, A.dotted(v) or "?")
            got[A.const_value(k)] = obj.qualname if kind == "func" and obj.relpath == TS else A.short(v, 30)
        for k, v in want.items():
            if got.get(k) == v:
                ctx.holds(r1, f"{UT}::get_test_stat[{k!r}]", v)
            else:
                ctx.violated(r1, gts, table, f"test statistic name {k!r} is mapped to `{got.get(k)}` instead of test_statistics.{v}", expected=f"{k!r}: {v}", found=str(got.get(k)), node=table)
        for k in set(got) - set(want):
            ctx.note(f"get_test_stat has extra key {k!r}")
        rs = [r for r in ast.walk(gts.node) if isinstance(r, ast.Raise)]
        nm = None
        if rs:
            e = rs[0].exc.func if isinstance(rs[0].exc, ast.Call) else rs[0].exc
            nm = (A.dotted(e) or "").split(".")[-1]
        if nm == "InvalidTestStatistic":
            ctx.holds(r1, f"{UT}::get_test_stat", "unknown name -> InvalidTestStatistic")
        else:
            ctx.violated(r1, gts, "raise", "an unknown test statistic name does not raise pyhf.exceptions.InvalidTestStatistic", found=str(nm))

    # ---- R2
    r2 = ctx.rule("C06.R2", "FWD: qmu/qmu_tilde -> one-sided helper, tmu/tmu_tilde -> two-sided helper, q0 -> two-sided helper; every shared parameter is forwarded; the public function returns the helper's result unchanged", "FWD", floor=30)
    plan = {"qmu": "_qmu_like", "qmu_tilde": "_qmu_like", "tmu": "_tmu_like", "tmu_tilde": "_tmu_like", "q0": "_tmu_like", "_qmu_like": "_tmu_like"}
    for caller, callee in plan.items():
        f, g = fns[caller], fns[callee]
        sites = calls_to(f.node, {callee})
        other = "_tmu_like" if callee == "_qmu_like" else "_qmu_like"
        wrong = calls_to(f.node, {other}) if caller != "_qmu_like" else []
        if wrong:
            ctx.violated(r2, f, wrong[0], f"{caller} is computed by {other}: " + ("a two-sided statistic must not zero one side" if other == "_qmu_like" else "an upper-limit statistic must be zero when the fitted POI exceeds the tested value"), expected=f"{callee}(...)", node=wrong[0])
        if not sites:
            if not wrong:
                ctx.unrecognised(r2, f, caller, f"no call to {callee}")
            continue
        exc = {"return_fitted_pars": "the caller consumes the fitted parameters; its own flag decides what it returns"} if caller in ("q0", "_qmu_like") else {}
        for c in sites:
            check_forward(ctx, r2, f, c, g, exceptions=exc, deps=FlowDeps(f.node), require_kwargs=False)
            if exc:
                b = A.bind_args(c, g.node)
                v = b.get("return_fitted_pars")
                if v is not None and A.const_value(v) is True:
                    ctx.holds(r2, f"{TS}::{caller} -> {callee}: return_fitted_pars=True")
                else:
                    ctx.violated(r2, f, c, f"{caller} unpacks fitted parameters from {callee} but does not request them", expected="return_fitted_pars=True", node=c)
        if caller in ("qmu", "qmu_tilde", "tmu", "tmu_tilde"):
            rets = [n for n in ast.walk(f.node) if isinstance(n, ast.Return) and n.value is not None]
            for r in rets:
                if isinstance(r.value, ast.Call) and A.call_attr(r.value) == callee:
                    ctx.holds(r2, f"{TS}::{caller}: return {callee}(...)", "returned unchanged")
                else:
                    ctx.violated(r2, f, r, f"{caller} does not return the helper's value unchanged", node=r)

    r7 = ctx.rule("C06.R7", "END-TO-END/HISTORY: qmu, qmu_tilde, tmu, tmu_tilde and q0 interpreted with every function of test_statistics.py walked and recording fits, four calls in one process (other mu and data; the same data list refilled in place; the same inputs with other bounds), fitted POI above and below the threshold: statistic = [one-sided zeroing of this statistic](max(0, 2NLL(tested mu, conditional fit) - 2NLL(free fit))) from THIS call's two fits, which receive this call's data, model, start values, bounds and fixed flags; q0 tests 0 whatever mu it is handed; the fitted parameters returned are this call's", "E2E", floor=5)
    _end_to_end(ctx, r7, repo)
    # ---- R3 / R6 two-sided helper
    r3 = ctx.rule("C06.R3", "ALG: the two-sided helper returns clip(2NLL(fixed-POI fit at mu) - 2NLL(free fit), 0, None); the fits receive (mu,) data, pdf, init, bounds, fixed in the order of the mle signatures and ask for the objective value", "ALG", floor=4)
    r6 = ctx.rule("C06.R6", "DEP: the fitted parameters returned with a statistic are the (fixed-POI fit, free fit) pair the statistic was computed from", "DEP", floor=3)
    t = fns["_tmu_like"]
    rec = {}
    stat_expected = fn("clip", Poly.atom("NLL2_FIXED") - Poly.atom("NLL2_FREE"), Poly.const(0), Poly.atom("NONE"))
    for flag in (True, False):
        try:
            env = _env()
            env["return_fitted_pars"] = flag
            it = Interp(env, {}, {}, externals=_externals(rec))
            out = it.run(A.strip_docstring(t.node.body))
        except Undecided as e:
            ctx.unrecognised(r3, t, "_tmu_like", f"not interpretable: {e}")
            continue
        stat = out[0] if flag and isinstance(out, (tuple, list)) else out
        if to_poly(stat) == stat_expected:
            ctx.holds(r3, f"{TS}::_tmu_like [return_fitted_pars={flag}]", str(stat_expected))
        else:
            ctx.violated(r3, t, f"_tmu_like statistic [return_fitted_pars={flag}]", "the two-sided statistic is not max(0, 2NLL(mu, conditional fit) - 2NLL(unconditional fit))", expected=str(stat_expected), found=str(stat))
        if flag:
            pars = out[1] if isinstance(out, (tuple, list)) and len(out) == 2 else None
            if isinstance(pars, (tuple, list)) and [str(to_poly(x)) for x in pars] == ["PARS_FIXED", "PARS_FREE"]:
                ctx.holds(r6, f"{TS}::_tmu_like", "(fixed-POI fit pars, free fit pars)")
            else:
                ctx.violated(r6, t, "_tmu_like fitted parameters", "the parameters returned are not (conditional fit, unconditional fit) of this statistic", expected="(PARS_FIXED, PARS_FREE)", found=str(pars))
    # argument roles of the two fits
    for name, target, first in (("fixed_poi_fit", repo.func(MLE, "fixed_poi_fit"), "mu"), ("fit", repo.func(MLE, "fit"), None)):
        calls = [c for c in A.calls_in(t.node) if A.call_attr(c) == name]
        if not calls:
            ctx.violated(r3, t, name, f"the two-sided helper does not call mle.{name}", node=t.node)
        for c in calls:
            b = A.bind_args(c, target.node)
            wantmap = {"data": "data", "pdf": "pdf", "init_pars": "init_pars", "par_bounds": "par_bounds", "fixed_params": "fixed_params"}
            if first:
                wantmap["poi_val"] = "mu"
            bad = [f"{k}<-{A.short(b.get(k), 20)}" for k, v in wantmap.items() if not (isinstance(b.get(k), ast.Name) and b[k].id == v)]
            rf = b.get("**kwargs", {}).get("return_fitted_val") if isinstance(b.get("**kwargs"), dict) else None
            if bad or rf is None or A.const_value(rf) is not True:
                ctx.violated(r3, t, c, f"arguments of mle.{name} are not (" + ("mu, " if first else "") + "data, pdf, init_pars, par_bounds, fixed_params, return_fitted_val=True)", found=", ".join(bad) or "return_fitted_val missing", node=c)
            else:
                ctx.holds(r3, f"{TS}::_tmu_like: {A.short(c, 60)}", "argument roles match the mle signature")

    # ---- R4 / R5 one-sided helper and q0
    r4 = ctx.rule("C06.R4", "CMP: the one-sided helper yields 0 where fitted POI > mu and the two-sided value where fitted POI < mu; q0 yields 0 where fitted POI < 0 and the two-sided value where it is > 0", "CMP", floor=4)
    r5 = ctx.rule("C06.R5", "path constant: q0 hands mu == 0 to the two-sided helper whatever mu it was given", "CMP", floor=2)
    TMU = Poly.atom("TMU")

    def tmu_stub(rec2):
        def f(args, kw):
            rec2.append((args, kw))
            return (TMU, (Poly.atom("PARS_FIXED"), Poly.atom("PARS_FREE")))
        return f

    q = fns["_qmu_like"]
    for rep, mu_rep_, want_v, descr in ((Fraction(1), Fraction(0), Poly(), "fitted POI > mu -> 0"), (Fraction(-1), Fraction(0), TMU, "fitted POI < mu -> two-sided value"),
                                        (Fraction(5), Fraction(3), Poly(), "fitted POI 5 > mu 3 -> 0"), (Fraction(2), Fraction(3), TMU, "0 < fitted POI 2 < mu 3 -> two-sided value"),
                                        (Fraction(-5, 2), Fraction(-2), TMU, "fitted POI -2.5 < mu -2 < 0 -> two-sided value"), (Fraction(-1), Fraction(-2), Poly(), "mu -2 < fitted POI -1 < 0 -> 0")):
        try:
            rec2 = []
            env = _env()
            env["return_fitted_pars"] = True
            it = Interp(env, {}, {"PARS_FREE": rep, "PARS_FIXED": mu_rep_, "mu": mu_rep_}, externals={"_tmu_like": tmu_stub(rec2)})
            out = it.run(A.strip_docstring(q.node.body))
            stat = to_poly(out[0])
            if stat == want_v:
                ctx.holds(r4, f"{TS}::_qmu_like [{descr}]")
            else:
                ctx.violated(r4, q, f"_qmu_like [{descr}]", "the one-sided zeroing rule of the upper-limit statistics is mis-oriented", expected=str(want_v), found=str(stat))
            if rep == 1 and mu_rep_ == 0:
                pars = out[1]
                if [str(to_poly(x)) for x in pars] == ["PARS_FIXED", "PARS_FREE"]:
                    ctx.holds(r6, f"{TS}::_qmu_like", "parameters are the helper's pair")
                else:
                    ctx.violated(r6, q, "_qmu_like fitted parameters", "parameters returned are not the pair the statistic was computed from", found=str(pars))
        except Undecided as e:
            ctx.unrecognised(r4, q, "_qmu_like", f"not interpretable: {e}")
    z = fns["q0"]
    for rep, want_v, descr in ((Fraction(-1), Poly(), "fitted POI < 0 -> 0"), (Fraction(1), TMU, "fitted POI > 0 -> two-sided value")):
        for mu_rep in (Fraction(0), Fraction(3)):
            try:
                rec2 = []
                env = _env()
                env["return_fitted_pars"] = True
                # the conditional fit holds the POI at the tested value: its POI entry equals mu (0 for q0)
                it = Interp(env, {}, {"PARS_FREE": rep, "PARS_FIXED": Fraction(0), "mu": mu_rep}, externals={"_tmu_like": tmu_stub(rec2)})
                out = it.run(A.strip_docstring(z.node.body))
                stat = to_poly(out[0])
                if mu_rep == 0:
                    if stat == want_v:
                        ctx.holds(r4, f"{TS}::q0 [{descr}]")
                    else:
                        ctx.violated(r4, z, f"q0 [{descr}]", "the zeroing rule of the discovery statistic is mis-oriented", expected=str(want_v), found=str(stat))
                if rep == 1:
                    if not rec2:
                        ctx.violated(r5, z, "q0", "q0 does not call the two-sided helper")
                    else:
                        a0 = to_poly(rec2[0][0][0])
                        ok = a0.is_zero() or (mu_rep == 0 and a0 == Poly.atom("mu"))
                        if ok:
                            ctx.holds(r5, f"{TS}::q0 [mu {'== 0' if mu_rep == 0 else '!= 0'}]", f"helper receives {a0}")
                        else:
                            ctx.violated(r5, z, f"q0 [mu {'== 0' if mu_rep == 0 else '!= 0'}]", "q0 evaluates the statistic at the caller's mu instead of mu = 0", expected="0", found=str(a0))
                    if mu_rep == 0:
                        pars = out[1]
                        if [str(to_poly(x)) for x in pars] == ["PARS_FIXED", "PARS_FREE"]:
                            ctx.holds(r6, f"{TS}::q0", "parameters are the helper's pair")
                        else:
                            ctx.violated(r6, z, "q0 fitted parameters", "parameters returned are not the pair the statistic was computed from", found=str(pars))
            except Undecided as e:
                ctx.unrecognised(r4, z, "q0", f"not interpretable: {e}")


def _end_to_end(ctx, rid, repo):
    """Every public statistic interpreted END TO END (all functions of test_statistics.py are walked, whatever helpers they
    are split into) with recording fits, four calls in ONE process: (mu_1, data_1), (mu_2, data_2), data_2's list object
    again after it was refilled in place, and that call once more with other bounds only.  Each result must be the case definition evaluated on THIS call's fits."""
    from ..alg import RaisedInFragment
    from ..objmodel import World
    at, c = Poly.atom, Poly.const
    mod = repo.module(TS)
    errs = (Undecided, KeyError, TypeError, ValueError, IndexError, AttributeError)

    def tag(data):
        return ",".join(str(to_poly(x)) for x in data) if isinstance(data, list) else getattr(data, "name", "?")

    for name, one_sided, forces_zero in (("qmu", True, False), ("qmu_tilde", True, False), ("tmu", False, False), ("tmu_tilde", False, False), ("q0", None, True)):
        f = mod.funcs.get(name)
        if f is None:
            ctx.unrecognised(rid, mod, name, "function not found")
            continue
        lower = Fraction(-5) if name in ("qmu", "tmu") else Fraction(0)
        # (mu representative, fitted POI representative) per call: above / below / above the threshold that matters
        thr = (lambda mu: Fraction(0)) if forces_zero else (lambda mu: mu)
        plan = [("first call", Fraction(1), Fraction(3)), ("second call, other mu and data", Fraction(2), Fraction(1, 2)), ("third call, the second call's data list refilled in place", Fraction(2), Fraction(-1, 4) if forces_zero else Fraction(7, 2)),
                ("fourth call, everything as in the third except the bounds", Fraction(2), Fraction(1) if not forces_zero else Fraction(-1, 3))]
        if lower < 0 and not forces_zero:
            plan.append(("fifth call, NEGATIVE tested value with the fitted POI below it", Fraction(-1), Fraction(-2)))
        plan.append(("last call, everything as in the call before (same objects, equal values) except that the data list was refilled in place", plan[-1][1], Fraction(5) if not forces_zero else Fraction(1, 5)))
        if forces_zero:
            plan = [(l_, Fraction(0), mh) for l_, _, mh in plan]
            plan[1] = (plan[1][0], Fraction(0), Fraction(-1, 2))
            plan[2] = (plan[2][0], Fraction(0), Fraction(1, 4))
        rec = []
        region = {}
        the_tensorlib = Obj("tensorlib", {"name": "numpy", "precision": "64b"})

        def fit(a, k):
            kk = dict(k)
            for nm, v in zip(("data", "pdf", "init_pars", "par_bounds", "fixed_params"), a):
                kk[nm] = v
            t_ = tag(kk.get("data")) + "|" + ",".join(str(to_poly(x)) for b_ in (kk.get("par_bounds") or []) for x in b_)
            rec.append(("fit", kk, t_))
            pars = [at(f"MUHAT<{t_}>"), at(f"NUIS_FREE<{t_}>")]
            return (pars, at(f"NLL2_FREE<{t_}>")) if kk.get("return_fitted_val") is True else pars

        def fixed_poi_fit(a, k):
            kk = dict(k)
            for nm, v in zip(("poi_val", "data", "pdf", "init_pars", "par_bounds", "fixed_params"), a):
                kk[nm] = v
            t_ = f"{to_poly(kk.get('poi_val'))};{tag(kk.get('data'))}" + "|" + ",".join(str(to_poly(x)) for b_ in (kk.get("par_bounds") or []) for x in b_)
            rec.append(("fixed_poi_fit", kk, t_))
            pars = [to_poly(kk.get("poi_val")), at(f"NUIS_FIXED<{t_}>")]
            return (pars, at(f"NLL2_FIXED<{t_}>")) if kk.get("return_fitted_val") is True else pars

        try:
            w = World({"__strict__": True, "fit": fit, "fixed_poi_fit": fixed_poi_fit, "get_backend": lambda a, k: (the_tensorlib, None)}, region=region,
                      module_env={"log": Obj("log"), "exceptions": Obj("exceptions")})
            for q, g in mod.funcs.items():
                if "." not in q and q != "__dir__":
                    w.add_func(g)
            pdf = Obj("pdf", {"config": Obj("config", {"poi_index": c(0)})})
            region.update({"LB": lower, "UB": Fraction(10), "NLB": Fraction(-5), "NUB": Fraction(5)})
            region.update({"LB4": lower - 5, "UB4": Fraction(20)})
            bounds_a = [(at("LB"), at("UB")), (at("NLB"), at("NUB"))]
            bounds_b = [(at("LB4"), at("UB4")), (at("NLB"), at("NUB"))]
            data1, data2 = [at("d1_0"), at("d1_1")], [at("d2_0"), at("d2_1")]
            problems = []
            for i_, (lab, mu_rep, muhat_rep) in enumerate(plan):
                if i_ == 2:
                    data2[:] = [at("d3_0"), at("d3_1")]
                if i_ == 4:
                    data1[:] = [at("d5_0"), at("d5_1")]
                data = data1 if i_ in (0, 4) else data2
                bounds = bounds_b if i_ == 3 else bounds_a
                last = i_ == len(plan) - 1
                if last:
                    data, bounds = prev_data, prev_bounds
                    data[:] = [at("dlast_0"), at("dlast_1")]
                prev_data, prev_bounds = data, bounds
                btag = ",".join(str(to_poly(x)) for b_ in bounds for x in b_)
                t_ = tag(data) + "|" + btag
                mu = at(f"mu_{i_}") if not forces_zero else c(0)
                mu_given = mu if not forces_zero else (c(0) if i_ != 1 else at("mu_nonzero"))  # q0 must test 0 whatever it is handed
                mu_name = "mu_2" if i_ == 3 else f"mu_{i_}"
                if last:
                    mu_name = prev_mu_name
                prev_mu_name = mu_name
                if not forces_zero:
                    mu = at(mu_name)
                    mu_given = mu
                region[mu_name] = mu_rep
                region["mu_nonzero"] = Fraction(3)
                region[f"MUHAT<{t_}>"] = muhat_rep
                # start values and fixed flags are plain lists; calls three and four pass EQUAL (not identical) ones
                init, fixed = [at("i0"), at("i1")] if i_ >= 2 else [at(f"i0_{i_}"), at(f"i1_{i_}")], [False, False]
                n0 = len(rec)
                handed = (list(data), list(init), list(bounds), list(fixed))

                def rewritten():
                    now = (list(data), list(init), list(bounds), list(fixed))
                    return [nm for nm, a_, b_ in zip(("data", "start values", "bounds", "fixed flags"), handed, now) if len(a_) != len(b_) or any(x is not y and x != y for x, y in zip(a_, b_))]

                try:
                    out = w.call_func(f, [mu_given, data, pdf, init, bounds, fixed], {"return_fitted_pars": True})
                except Undecided:
                    if rewritten():
                        problems.append(f"{lab}: the caller's {' and '.join(rewritten())} (handed in as {btag}) are rewritten in place, so the fits run on other inputs than this call's -- and so does every later use of that list")
                        break
                    raise
                if rewritten():
                    problems.append(f"{lab}: the caller's {' and '.join(rewritten())} are rewritten in place (bounds handed in as {btag})")
                    break
                mine = rec[n0:]
                stat = to_poly(out[0]) if isinstance(out, (tuple, list)) and len(out) == 2 else None
                fx = f"{to_poly(mu)};{tag(data)}|{btag}"
                T = fn("clip", at(f"NLL2_FIXED<{fx}>") - at(f"NLL2_FREE<{t_}>"), c(0), at("NONE"))
                if one_sided is True:
                    want = Poly() if muhat_rep > mu_rep else T
                elif forces_zero:
                    want = Poly() if muhat_rep < 0 else T
                else:
                    want = T
                if stat is None:
                    problems.append(f"{lab}: with return_fitted_pars the result is not (statistic, (fixed-POI fit, free fit))")
                    continue
                if stat != want:
                    problems.append(f"{lab} (fitted POI {muhat_rep}, tested {0 if forces_zero else mu_rep}): the statistic is {stat}, the case definition gives {want}")
                    continue
                for kind, kk, _ in mine:
                    if kk.get("data") is not data or kk.get("pdf") is not pdf or kk.get("init_pars") is not init or kk.get("par_bounds") is not bounds or kk.get("fixed_params") is not fixed:
                        problems.append(f"{lab}: the {kind} does not receive this call's data, model, start values, bounds and fixed flags")
                        break
                kinds = sorted(k_ for k_, _, _ in mine)
                if kinds != ["fit", "fixed_poi_fit"]:
                    problems.append(f"{lab}: {kinds or 'no'} fits are run; the statistic needs one fixed-POI fit and one free fit on this call's data")
                    continue
                pars = out[1]
                okp = isinstance(pars, (tuple, list)) and len(pars) == 2 and [str(to_poly(x)) for x in pars[0]] == [str(to_poly(mu)), f"NUIS_FIXED<{fx}>"] and [str(to_poly(x)) for x in pars[1]] == [f"MUHAT<{t_}>", f"NUIS_FREE<{t_}>"]
                if not okp:
                    problems.append(f"{lab}: the fitted parameters returned are not (this call's fixed-POI fit, this call's free fit)")
            if problems:
                ctx.violated(rid, f, f"{name} end to end", f"{name} does not obey its case definition on every call: {problems[0]}" + (f" (+{len(problems) - 1} more)" if len(problems) > 1 else ""), expected="max(0, 2NLL(tested mu, conditional fit) - 2NLL(free fit)) with the one-sided rule of this statistic, from this call's fits", found=problems[0])
            else:
                ctx.holds(rid, f"{TS}::{name} [end to end, 4 calls in one process]", "case definition on this call's fits; fits get this call's inputs; fitted parameters returned are this call's")
        except RaisedInFragment as e:
            ctx.violated(rid, f, f"{name} end to end", f"{name} raises {e.exc_name} on a model with a POI and bounds {lower}..10")
        except errs as e:
            ctx.unrecognised(rid, f, f"{name} end to end", f"not interpretable: {type(e).__name__}: {e}")
