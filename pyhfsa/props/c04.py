"""C04 -- probability primitives: structural agreement on four backends.

  R1 ROLE/SIB the distribution object and the primitive use the same callee with the same
              argument roles on every backend; samples have shape sample_shape + parameter shape
  R2 ALG      poisson(n, lam) == exp(poisson_logpdf term) on all four backends; the density
              variants of Normal are exp(log-density) or the library's own pdf with the same roles
  R3 ALG/SIB  numpy and jax hand-written log-densities have the reference normal forms
              xlogy(n,lam) - lam - gammaln(n+1)  and  -log(sigma sqrt(2 pi)) - ((x-mu)/(sqrt2 sigma))^2
  R4 STAB     normal_cdf never forms a complement (1 - cdf, 1 +- erf); torch's erfc form is
              0.5 erfc(-(x-mu)/(sigma sqrt 2))
  R5 SIB      the four backend classes expose the same public methods with the same parameters/defaults
  R6 PREC     tensor constructors see the target dtype when they first touch python numbers
"""

from __future__ import annotations

import ast
from fractions import Fraction

from .. import astutil as A
from ..alg import Interp, Obj, Poly, PyFunc, Undecided, fn, to_poly, _ATOMS

EXPLANATION = (
    "The probability methods of the four backend classes and the numpy/jax helper distributions are compared "
    "structurally (callee class and argument roles of distribution object vs primitive; public method sets and "
    "signatures of the four siblings) and by abstract interpretation into exact normal forms over opaque special-"
    "function atoms (exp/log/xlogy/gammaln/erfc): poisson == exp(log-mass term), numpy == jax == reference form of "
    "the Poisson log-mass and the Normal log-density, torch's normal_cdf == 0.5 erfc(-(x-mu)/(sigma sqrt2)). "
    "A complement lint guards the tail-stable cdf; a dtype-at-construction rule guards precision (a dtype-less "
    "tf.convert_to_tensor narrows python floats to float32 before the cast). NOT decided: accuracy of "
    "scipy/jax/torch/tfp special functions over the argument range -- the numerical core of the property."
)
ASSUMPTIONS = [
    "scipy.stats.norm.cdf/pdf, jax.scipy.stats.norm, torch.distributions, tfp.distributions implement the exact functions",
    "tf.convert_to_tensor without dtype maps python floats to float32; dtype_hint is honoured for python numbers",
]
T = "src/pyhf/tensor/"
BACKENDS = {"numpy": (T + "numpy_backend.py", "numpy_backend"), "jax": (T + "jax_backend.py", "jax_backend"),
            "pytorch": (T + "pytorch_backend.py", "pytorch_backend"), "tensorflow": (T + "tensorflow_backend.py", "tensorflow_backend")}
PROB_METHODS = ["poisson", "poisson_logpdf", "normal", "normal_logpdf", "normal_cdf", "poisson_dist", "normal_dist"]


def _not_mine():
    from ..alg import NotHandled
    raise NotHandled()


def _dist_ext():
    """externals modelling library distribution constructors as opaque objects carrying their argument roles."""
    def ctor(name):
        roles = {"Poisson": ["rate"], "Normal": ["loc", "scale"]}.get(name, [])  # torch.distributions and tfp.distributions name their parameters alike

        def f(args, kw):
            kw = dict(kw)
            pos = list(args)
            for r_ in roles[len(pos):]:  # keyword actuals in the library's own parameter order ARE the positional ones
                if r_ in kw:
                    pos.append(kw.pop(r_))
                else:
                    break
            parts = [str(to_poly(a)) for a in pos] + [f"{k}={to_poly(v)}" for k, v in sorted(kw.items()) if k not in ("validate_args", "allow_nan_stats", "name")]
            return Obj(f"{name}[{','.join(parts)}]")
        return f
    return {"Poisson": ctor("Poisson"), "Normal": ctor("Normal"), "broadcast_all": lambda a, k: tuple(a),
            ".reciprocal": lambda recv, a, k: to_poly(recv).inverse(), "reciprocal": lambda a, k: to_poly(a[0]).inverse() if a else _not_mine(),
            "negative": lambda a, k: -to_poly(a[0]) if a else _not_mine(),
            ".pdf": lambda recv, a, k: fn("normpdf", *[to_poly(x) for x in a], *[to_poly(v) for _, v in sorted(k.items())]),
            ".cdf": lambda recv, a, k: (fn("normcdf", *[to_poly(x) for x in a], *[to_poly(v) for _, v in sorted(k.items())]) if (not isinstance(recv, Obj) or recv.name == "norm") else fn("cdf", Poly.atom(recv.name), *[to_poly(x) for x in a])),
            "_BasicPoisson": ctor("_BasicPoisson"), "_BasicNormal": ctor("_BasicNormal"),
            # anything else a hand-written density may use stays an opaque function of its arguments
            **{nm: (lambda a, k, nm=nm: fn(nm, *[to_poly(x) for x in a], *[to_poly(v) if not isinstance(v, str) else Poly.atom(v) for _, v in sorted(k.items())])) for nm in ("clamp", "clip", "clip_by_value", "maximum", "minimum", "nan_to_num", "relu", "softplus")},
            "finfo": lambda a, k: Obj("finfo"), "iinfo": lambda a, k: Obj("iinfo"),
            "lgamma": lambda a, k: fn("gammaln", to_poly(a[0])),
            "zeros_like": lambda a, k: Poly(), "ones_like": lambda a, k: Poly.const(1)}


IMPORT_TIME_WIDTH = {"torch": 32, "tf": 32, "tensorflow": 32, "jnp": 64, "jax": 64, "np": 64, "numpy": 64}  # default float width when the backend MODULE is imported (jax: the module switches x64 on first)


def _module_constants(module):
    """Module-level `NAME = <tensor library constructor>(<number>)`: evaluated the way the import evaluates it -- with the
    library's import-time default float width, which is NOT the precision a backend instance is later configured with.
    A value narrowed to 32 bits is the opaque f32<value>."""
    out = {}

    def ctor(lib_width):
        def f(a, k):
            dt = k.get("dtype")
            txt = getattr(dt, "name", str(dt)) if dt is not None else ""
            wide = ("64" in txt or "double" in txt) if dt is not None else lib_width == 64
            v = to_poly(a[0])
            return v if wide else fn("f32", v)
        return f

    for st in module.tree.body:
        if not (isinstance(st, (ast.Assign, ast.AnnAssign)) and st.value is not None):
            continue
        tgt = st.targets[0] if isinstance(st, ast.Assign) else st.target
        if not isinstance(st.value, ast.Call) or (A.dotted(st.value.func) or "").split(".")[0] in ("math",):
            # plain numbers: python floats are binary64 whatever any tensor library defaults to
            if isinstance(tgt, ast.Name) and isinstance(st.value, (ast.Call, ast.BinOp, ast.Constant, ast.UnaryOp)):
                try:
                    v_ = Interp(dict(out), {}, {}).eval(st.value)
                    if isinstance(v_, Poly):
                        out[tgt.id] = v_
                except Exception:  # noqa: BLE001
                    pass
            continue
        d = A.dotted(st.value.func) or ""
        root, _, attr = d.partition(".")
        attr = attr.split(".")[-1]
        if not isinstance(tgt, ast.Name) or root not in IMPORT_TIME_WIDTH:
            continue
        if attr in ("tensor", "as_tensor", "constant", "array", "asarray", "convert_to_tensor", "float32", "float64", "double"):
            width = 32 if attr == "float32" else (64 if attr in ("float64", "double") else IMPORT_TIME_WIDTH[root])
            try:
                out[tgt.id] = Interp({}, {}, {}, externals={attr: ctor(width)}).eval(st.value)
            except Undecided:
                continue
    return out


def _eval_method(cls, mname, argnames, selfattrs=None):
    m = cls.methods[mname]
    env = {p: Poly.atom(p) for p in argnames}
    env.update({"norm": Obj("norm"), "poisson": Obj("poissonlib")})
    env.update(_module_constants(cls.module))
    # representatives: a generic interior point (n, lam, sigma > 0) decides guards such as `lam == 0`
    region = {"n": Fraction(3), "lam": Fraction(5, 2), "x": Fraction(1, 3), "mu": Fraction(1, 7), "sigma": Fraction(9, 8), "rate": Fraction(5, 2)}
    if selfattrs is None:  # a 64-bit instance in a fresh process
        ident = PyFunc(lambda a, k: to_poly(a[0]), "float64")
        selfattrs = {"precision": "64b", "name": cls.name.replace("_backend", ""), "default_do_grad": False, "dtypemap": {"float": ident, "int": ident, "bool": PyFunc(lambda a, k: a[0], "bool")}}
        for name, v in (cls.attrs or {}).items():
            if isinstance(v, ast.Dict) and not v.keys:
                selfattrs[name] = {}
            elif isinstance(v, (ast.List, ast.Set)) and not v.elts:
                selfattrs[name] = []
    it = Interp(env, selfattrs, region, methods={k: v.node for k, v in cls.methods.items()}, cls_name=cls.name, externals=_dist_ext())  # helpers of the class are walked too
    return it.run(A.strip_docstring(m.node.body))


def _width_history(ctx, rid, classes):
    """One process, per backend class: an instance configured for 32 bits evaluates every probability primitive, then an
    instance configured for 64 bits does.  Class-level containers are ONE object for both instances, module-level constants
    are what the import made them.  The 64-bit instance's expressions must contain nothing narrowed to 32 bits and must be
    what the same instance gives in a fresh process."""
    sigs = {"poisson_logpdf": ["n", "lam"], "poisson": ["n", "lam"], "normal_logpdf": ["x", "mu", "sigma"], "normal": ["x", "mu", "sigma"], "normal_cdf": ["x", "mu", "sigma"]}

    def attrs_for(cls, width, shared):
        cast = (lambda a, k: fn("f32", to_poly(a[0]))) if width == 32 else (lambda a, k: to_poly(a[0]))
        d = {"precision": f"{width}b", "name": cls.name.replace("_backend", ""), "default_do_grad": False,
             "dtypemap": {"float": PyFunc(cast, f"float{width}"), "int": PyFunc(lambda a, k: to_poly(a[0]), f"int{width}"), "bool": PyFunc(lambda a, k: a[0], "bool")}}
        d.update(shared)  # class-level state: the very same objects for every instance
        return d

    def class_state(cls):
        out = {}
        for name, v in (cls.attrs or {}).items():
            if isinstance(v, ast.Dict) and not v.keys:
                out[name] = {}
            elif isinstance(v, (ast.List, ast.Set)) and not v.elts:
                out[name] = []
            elif isinstance(v, ast.Constant):
                out[name] = v.value if isinstance(v.value, (str, bool)) or v.value is None else to_poly(v.value)
        return out

    def narrowed(p):
        return "f32<" in str(p)

    for b, c in classes.items():
        shared = class_state(c)
        fresh = {}
        for mname, args in sigs.items():
            if mname not in c.methods:
                continue
            site = f"{c.relpath}::{c.name}.{mname} [64b instance after a 32b instance of the same class]"
            try:
                fresh[mname] = to_poly(_eval_method(c, mname, args, attrs_for(c, 64, class_state(c))))
            except Undecided as e:
                ctx.unrecognised(rid, c.methods[mname], mname, f"not interpretable: {e}")
                continue
        for mname, args in sigs.items():
            if mname in fresh:
                try:
                    _eval_method(c, mname, args, attrs_for(c, 32, shared))
                except Undecided:
                    pass
        for mname, args in sigs.items():
            if mname not in fresh:
                continue
            site = f"{c.relpath}::{c.name}.{mname} [64b instance after a 32b instance of the same class]"
            try:
                after = to_poly(_eval_method(c, mname, args, attrs_for(c, 64, shared)))
            except Undecided as e:
                ctx.unrecognised(rid, c.methods[mname], mname, f"not interpretable after the 32b instance: {e}")
                continue
            if narrowed(fresh[mname]):
                ctx.violated(rid, c.methods[mname], f"{mname} at 64b", f"a backend configured for 64 bits computes {mname} with a constant that was narrowed to 32 bits when the module was imported (the library's default width at import time is not the backend's precision): the result carries a relative error of 1e-8 that grows to 1e-5 in the far tails", expected="constants in binary64 (python floats / math.sqrt) or created per call in the backend's float type", found=str(fresh[mname])[:200])
            elif after != fresh[mname] or narrowed(after):
                ctx.violated(rid, c.methods[mname], f"{mname} at 64b after a 32b instance", f"{mname} of a 64-bit backend depends on a 32-bit backend of the same class having been used earlier in the process: values cached on the CLASS in the first instance's float type are reused", expected=str(fresh[mname])[:200], found=str(after)[:200])
            else:
                ctx.holds(rid, site, "same expression as in a fresh process; nothing narrowed")


def run(ctx):
    repo = ctx.repo
    classes = {}
    for b, (rel, cname) in BACKENDS.items():
        classes[b] = repo.cls(rel, cname)
        for m in PROB_METHODS + ["astensor", "ones", "zeros"]:
            if m in classes[b].methods:
                ctx.touch(classes[b].methods[m])
    r1 = ctx.rule("C04.R1", "ROLE/SIB: per backend the distribution object (poisson_dist/normal_dist) and the primitive (poisson_logpdf/normal_logpdf) evaluate the same callee with the same argument roles (rate<->lam, loc<->mu, scale<->sigma, value<->n/x); helper distributions sample with size sample_shape + parameter shape", "ROLE", floor=12)
    r2 = ctx.rule("C04.R2", "ALG: poisson(n, lam) == exp(poisson_logpdf(n, lam)) on every backend; normal(x, mu, sigma) is exp(normal_logpdf) or the library pdf with roles (x, mu, sigma)", "ALG", floor=8)
    r3 = ctx.rule("C04.R3", "ALG/SIB: numpy and jax poisson_logpdf == xlogy(n,lam) - lam - gammaln(n+1); normal_logpdf == -log(sigma*sqrt(2*pi)) - ((x-mu)/(sqrt(2)*sigma))^2", "ALG", floor=4)
    r4 = ctx.rule("C04.R4", "STAB: normal_cdf forms no complement; library cdf called with (x, loc=mu, scale=sigma); torch == 0.5*erfc(-(x-mu)/(sigma*sqrt(2)))", "STAB", floor=4)
    r5 = ctx.rule("C04.R5", "SIB: the four backend classes expose the same public method set with the same parameter names and (numerically) equal defaults", "SIB", floor=35)
    r6 = ctx.rule("C04.R6", "PREC: in astensor/ones/zeros the library constructor that first sees python numbers receives the dtype looked up in self.dtypemap (dtype= or dtype_hint=)", "PREC", floor=12)

    r8 = ctx.rule("C04.R8", "DTYPE: no probability primitive applies an operation that truncates on integer input (numpy reciprocal / floor_divide / //) to a caller-supplied argument that nothing has made floating: the documented defaults mu=0, sigma=1 and user calls like normal_cdf(x, 10, 2) pass python ints", "DTYPE", floor=2)
    r7 = ctx.rule("C04.R7", "MODE: nothing in src/pyhf switches the numeric mode of a tensor library in a way that changes results process-wide (denormal flushing, TF32 / reduced matmul precision, fast-math): such a switch silently turns Poisson terms of denormal rates into -inf and far-tail probabilities into 0, also for backends selected later", "MODE", floor=2)
    r9 = ctx.rule("C04.R9", "WIDTH-HISTORY: per backend class, a 32-bit instance evaluates every probability primitive and then a 64-bit instance does, class-level containers shared and module-level tensor constants as the import creates them (torch / tensorflow default to 32 bits at import): the 64-bit expressions contain nothing narrowed to 32 bits and equal those of a fresh process", "HISTORY", floor=16)
    _numeric_mode(ctx, r7, repo)
    _int_dtype(ctx, r8, repo)
    _width_history(ctx, r9, classes)
    r10 = ctx.rule("C04.R10", "PRECISION-ARRIVES (interpreted, engine shared with C11.R7): the backend classes choose their float width by comparing `precision` with the literal '64b'; what reaches them is what set_backend hands over: walked over histories of switches, set_backend builds and reports the backend at the requested width -- also when the width is spelled in upper case, given together with a backend object of the other width, or changed alone", "HISTORY", floor=20)
    from .c11 import _r7_switch_histories
    _r7_switch_histories(ctx, r10)
    n, lam, x, mu, sigma = (Poly.atom(s) for s in ("n", "lam", "x", "mu", "sigma"))
    ref_pois = fn("xlogy", n, lam) - lam - fn("gammaln", n + 1)
    ref_norm = -fn("log", sigma * fn("sqrt", 2 * Poly.atom("PI"))) - ((x - mu) / (fn("sqrt", Poly.const(2)) * sigma)) ** 2

    for b, c in classes.items():
        site = f"{c.relpath}::{c.name}"
        # ---------------- poisson_logpdf / poisson / poisson_dist
        try:
            L = _eval_method(c, "poisson_logpdf", ["n", "lam"])
            P = _eval_method(c, "poisson", ["n", "lam"])
            D = _eval_method(c, "poisson_dist", ["rate"])
            Lp, Pp = to_poly(L), to_poly(P)
            exact_forms = (fn("exp", fn("log_prob", Poly.atom("Poisson[lam]"), n)), fn("exp", ref_pois))  # library log-mass and reference form are the same function (ASSUMPTIONS)
            if Pp == fn("exp", Lp) or (Pp in exact_forms and fn("exp", Lp) in exact_forms):
                ctx.holds(r2, f"{site}.poisson", "== exp(poisson_logpdf)")
            else:
                ctx.violated(r2, c.methods["poisson"], "poisson", "poisson(n, lam) is not the exponential of the poisson_logpdf term", expected=f"exp<{Lp}>", found=str(Pp))
            if b in ("numpy", "jax"):
                if Lp == ref_pois:
                    ctx.holds(r3, f"{site}.poisson_logpdf", str(ref_pois))
                else:
                    ctx.violated(r3, c.methods["poisson_logpdf"], "poisson_logpdf", "hand-written Poisson log-mass differs from xlogy(n, lam) - lam - gammaln(n + 1)", expected=str(ref_pois), found=str(Lp))
                _helper_dist(ctx, r1, repo, c, "_BasicPoisson", "poisson_logpdf", ["value", "rate"], D, "rate")
            else:
                want = fn("log_prob", Poly.atom("Poisson[lam]"), n)
                if Lp == want:
                    ctx.holds(r1, f"{site}.poisson_logpdf", "Poisson(lam).log_prob(n)")
                elif Lp == ref_pois:
                    ctx.holds(r1, f"{site}.poisson_logpdf", f"reference form {ref_pois}")
                else:
                    ctx.violated(r1, c.methods["poisson_logpdf"], "poisson_logpdf", "the Poisson log-mass is neither the library's Poisson(rate=lam).log_prob(n) nor the reference form xlogy(n, lam) - lam - lgamma(n + 1)", expected=f"{want}  |  {ref_pois}", found=str(Lp))
                if isinstance(D, Obj) and D.name == "Poisson[rate]":
                    ctx.holds(r1, f"{site}.poisson_dist", "same library class, rate in the role of lam")
                else:
                    ctx.violated(r1, c.methods["poisson_dist"], "poisson_dist", "the distribution object is not the library Poisson constructed from the rate (as poisson_logpdf does with lam)", expected="Poisson[rate]", found=str(getattr(D, "name", D)))
        except Undecided as e:
            ctx.unrecognised(r2, c, "poisson*", f"not interpretable: {e}")
        # ---------------- normal_logpdf / normal / normal_dist
        try:
            L = _eval_method(c, "normal_logpdf", ["x", "mu", "sigma"])
            P = _eval_method(c, "normal", ["x", "mu", "sigma"])
            D = _eval_method(c, "normal_dist", ["mu", "sigma"])
            Lp, Pp = to_poly(L), to_poly(P)
            if b in ("numpy", "jax"):
                if Lp == ref_norm:
                    ctx.holds(r3, f"{site}.normal_logpdf", str(ref_norm))
                else:
                    ctx.violated(r3, c.methods["normal_logpdf"], "normal_logpdf", "hand-written Normal log-density differs from -log(sigma sqrt(2 pi)) - ((x - mu)/(sqrt(2) sigma))^2", expected=str(ref_norm), found=str(Lp))
                want = fn("normpdf", x, mu, sigma)
                if Pp == want or Pp == fn("exp", Lp):
                    ctx.holds(r2, f"{site}.normal", "library pdf(x, loc=mu, scale=sigma)")
                else:
                    ctx.violated(r2, c.methods["normal"], "normal", "normal(x, mu, sigma) is neither exp(normal_logpdf) nor the library pdf with roles (x, loc=mu, scale=sigma)", expected=str(want), found=str(Pp))
                _kw_roles(ctx, r2, c.methods["normal"], "pdf")
                _helper_dist(ctx, r1, repo, c, "_BasicNormal", "normal_logpdf", ["value", "loc", "scale"], D, "loc,scale")
            else:
                want = fn("log_prob", Poly.atom("Normal[mu,sigma]"), x)
                if Lp == want:
                    ctx.holds(r1, f"{site}.normal_logpdf", "Normal(mu, sigma).log_prob(x)")
                else:
                    ctx.violated(r1, c.methods["normal_logpdf"], "normal_logpdf", "the Normal log-density is not Normal(loc=mu, scale=sigma).log_prob(x)", expected=str(want), found=str(Lp))
                if Pp == fn("exp", Lp) or Pp == fn("prob", Poly.atom("Normal[mu,sigma]"), x):
                    ctx.holds(r2, f"{site}.normal", "exp(log_prob) / .prob of the same distribution")
                else:
                    ctx.violated(r2, c.methods["normal"], "normal", "normal(x, mu, sigma) is not the density of the distribution normal_logpdf evaluates", expected=f"exp<{Lp}>", found=str(Pp))
                if isinstance(D, Obj) and D.name == "Normal[mu,sigma]":
                    ctx.holds(r1, f"{site}.normal_dist", "same library class, (mu, sigma) roles")
                else:
                    ctx.violated(r1, c.methods["normal_dist"], "normal_dist", "the distribution object is not Normal(loc=mu, scale=sigma)", expected="Normal[mu,sigma]", found=str(getattr(D, "name", D)))
        except Undecided as e:
            ctx.unrecognised(r2, c, "normal*", f"not interpretable: {e}")
        # ---------------- normal_cdf
        cdf = c.methods["normal_cdf"]
        bad = []
        for nd in ast.walk(cdf.node):
            if isinstance(nd, ast.BinOp) and isinstance(nd.op, (ast.Sub, ast.Add)) and (A.const_value(nd.left) in (1, 1.0) or (isinstance(nd.op, ast.Add) and A.const_value(nd.right) in (1, 1.0))):
                if any(A.call_attr(cc) in ("erf", "cdf", "normal_cdf", "ndtr", "erfc", "exp") for cc in A.calls_in(nd)):
                    bad.append(nd)
        if bad:
            ctx.violated(r4, cdf, bad[0], "normal_cdf forms a complement (1 -/+ erf/cdf): for x < -8.3 the result collapses to 0 although Phi(x) is representable down to -37", expected="0.5*erfc(-z) or a library cdf/ndtr", node=bad[0])
        else:
            ctx.holds(r4, f"{site}.normal_cdf", "no complement")
        try:
            v = to_poly(_eval_method(c, "normal_cdf", ["x", "mu", "sigma"]))
            # any exact form is accepted on any backend: the library's own cdf with (x, loc=mu, scale=sigma), the
            # distribution object's cdf, ndtr((x - mu)/sigma), or 0.5*erfc(-(x - mu)/(sigma*sqrt 2))
            erfc_form = Fraction(1, 2) * fn("erfc", -((x - mu) / (sigma * fn("sqrt", Poly.const(2)))))
            forms = [erfc_form, fn("cdf", Poly.atom("Normal[mu,sigma]"), x), fn("normcdf", x, mu, sigma), fn("ndtr", (x - mu) / sigma)]
            if b == "pytorch":
                # torch.special.ndtr and torch.distributions.Normal.cdf are 0.5*(1 + erf(z/sqrt 2)): 0 below -8.3 sigma (the
                # scipy / jax / tensorflow routines of the same names switch to erfc in the tail) -- only the erfc form is exact
                forms = [erfc_form]
            if any(v == w_ for w_ in forms):
                ctx.holds(r4, f"{site}.normal_cdf", str(v))
            else:
                ctx.violated(r4, cdf, "normal_cdf", "normal_cdf is none of the forms of Phi((x - mu)/sigma) that are exact in the far tails ON THIS LIBRARY (0.5*erfc(-(x-mu)/(sigma*sqrt 2)) everywhere; the library cdf / ndtr on numpy, jax, tensorflow -- torch's are built on erf and return 0 below -8.3 sigma)", expected=" | ".join(str(w_) for w_ in forms), found=str(v))
            if b in ("numpy", "jax"):
                _kw_roles(ctx, r4, cdf, "cdf")
        except Undecided as e:
            ctx.unrecognised(r4, cdf, "normal_cdf", f"not interpretable: {e}")
        # ---------------- R6
        for mname, inp in (("astensor", "tensor_in"), ("ones", "shape"), ("zeros", "shape")):
            m = c.methods.get(mname)
            if m is None:
                ctx.violated(r5, c, mname, f"backend lacks {mname}")
                continue
            _prec(ctx, r6, m, inp)

    # ---------------- R5 sibling signatures
    pub = {b: {k: v for k, v in c.methods.items() if not k.startswith("_")} for b, c in classes.items()}
    allnames = set().union(*[set(p) for p in pub.values()])
    ctx.extra["public_methods"] = len(allnames)
    # the interface the package itself programs against: methods called on a backend handle anywhere outside the backends
    used = set()
    for m_ in repo.modules.values():
        if m_.relpath.startswith(T) and m_.relpath.endswith("_backend.py"):
            continue
        for n_ in ast.walk(m_.tree):
            if isinstance(n_, ast.Call) and isinstance(n_.func, ast.Attribute):
                root = A.dotted(n_.func.value) or ""
                if root.split(".")[-1] in ("tensorlib", "tb", "default_backend", "backend"):
                    used.add(n_.func.attr)
    for name in sorted(allnames):
        have = [b for b in pub if name in pub[b]]
        if len(have) != len(pub):
            missing = sorted(set(pub) - set(have))
            owner = pub[have[0]][name]
            if name in used or name in PROB_METHODS:
                ctx.violated(r5, owner, f"def {name}", f"method `{name}` exists on {have} but not on {missing}, and the package calls it on whatever backend is current: code that works on one backend breaks on another", expected="all four backends")
            else:
                ctx.note(f"C04.R5: `{name}` exists only on {have}; nothing in the package calls it through a backend handle (a private helper of that backend)")
            continue
        sigs = {}
        for b in pub:
            f = pub[b][name]
            ps = [p for p in A.params_of(f.node) if p != "self"]
            df = {k: _numnorm(A.const_value(v)) for k, v in A.param_defaults(f.node).items()}
            sigs[b] = (tuple(ps), tuple(sorted(df.items(), key=str)))
        ref = sigs["numpy"]
        diff = [b for b in sigs if sigs[b] != ref]
        if diff:
            b0 = diff[0]
            ctx.violated(r5, pub[b0][name], f"def {name}({', '.join(sigs[b0][0])})", f"signature of `{name}` differs between backends numpy and {b0}", expected=f"{ref}", found=f"{sigs[b0]}")
        else:
            ctx.holds(r5, f"{name}", f"{ref[0]}")


def _numnorm(v):
    if isinstance(v, bool) or v is None or isinstance(v, str):
        return v
    if isinstance(v, (int, float)):
        return float(v)
    return repr(v)


def _kw_roles(ctx, rid, m, attr):
    for c in A.calls_in(m.node):
        if A.call_attr(c) == attr:
            kws = {k.arg: A.dotted(k.value) for k in c.keywords}
            pos = [A.dotted(a) for a in c.args]
            ok = pos[:1] == ["x"] and (kws.get("loc") == "mu" and kws.get("scale") == "sigma" or pos[1:3] == ["mu", "sigma"])
            if ok:
                ctx.holds(rid, f"{m.relpath}::{m.qualname}: {A.short(c, 50)}", "roles (x, loc=mu, scale=sigma)")
            else:
                ctx.violated(rid, m, c, f"library {attr} is not called with (x, loc=mu, scale=sigma)", node=c)


def _logprob_interpreted(lp, prim, roles):
    """What <helper>.log_prob hands to the primitive in the value's place: 'as given', a description of a conversion, or None
    when the body is not interpretable (the structural reading then stands alone)."""
    from ..alg import Interp, NotHandled, Obj, Undecided
    seen = []
    value = Obj("VALUE", {"dtype": Obj("VALUE_DTYPE"), "shape": Obj("VALUE_SHAPE")}, closed=True)

    def rec(a, k):
        seen.append(a[0] if a else k.get(roles[0]))
        return Obj("LOGP")

    def conv(name):
        def f(a, k):
            x = a[0] if a else None
            dt = k.get("dtype", a[1] if len(a) > 1 else None)
            if dt is None:
                return x  # no dtype: the value itself (an array of the same numbers)
            return Obj("CONVERTED", {"how": f"{name}(value, dtype={getattr(dt, 'name', dt)})"}, closed=True)
        return f

    def astype(recv, a, k):
        if recv is value:
            return Obj("CONVERTED", {"how": f"value.astype({getattr(a[0], 'name', a[0]) if a else '?'})"}, closed=True)
        raise NotHandled()

    selfattrs = {r: Obj(r.upper(), {"dtype": Obj(f"{r}.dtype"), "shape": Obj(f"{r}.shape")}, closed=True) for r in roles[1:]}
    ext = {"__strict__": True, prim: rec, "asarray": conv("asarray"), "array": conv("array"), "astensor": conv("astensor"), ".astype": astype,
           "numpy_backend": lambda a, k: Obj("tensorlib"), "jax_backend": lambda a, k: Obj("tensorlib")}
    try:
        Interp({"value": value, "np": Obj("np"), "jnp": Obj("jnp")}, selfattrs, {}, externals=ext).run(A.strip_docstring(lp.node.body))
    except (Undecided, KeyError, TypeError, ValueError, IndexError, AttributeError):
        return None
    if not seen:
        return None
    v = seen[-1]
    if v is value:
        return "as given"
    return v.attrs.get("how", v.name) if isinstance(v, Obj) else type(v).__name__


def _helper_dist(ctx, rid, repo, backend_cls, helper_name, prim, roles, dist_value, ctor_roles):
    """numpy/jax: <helper>.log_prob(value) -> tensorlib.<prim>(value, self.<...>) and <x>_dist(...) -> <helper>(...)."""
    rel = backend_cls.relpath
    h = repo.cls(rel, helper_name)
    for m in h.methods.values():
        ctx.touch(m)
    lp = h.methods["log_prob"]
    calls = [c for c in A.calls_in(lp.node) if A.call_attr(c) == prim]
    site = f"{rel}::{helper_name}.log_prob"
    if not calls:
        # the density may be reached another way (a module-level function both the backend method and the helper call): compare
        # what log_prob(value) computes with what the backend's primitive computes for the same roles
        try:
            names_ = ["value"] + list(roles[1:])
            prim_params = [p_ for p_ in A.params_of(backend_cls.methods[prim].node) if p_ != "self"]
            region_ = {n_: Fraction(k_ + 2, 3) for k_, n_ in enumerate(names_)}
            it_ = Interp({"value": Poly.atom("value"), "norm": Obj("norm"), "poisson": Obj("poissonlib"), **_module_constants(h.module)}, {r_: Poly.atom(r_) for r_ in roles[1:]}, region_, methods={k_: v_.node for k_, v_ in h.methods.items()}, cls_name=h.name, externals=_dist_ext())
            if "__init__" in h.methods:  # attributes the constructor derives from the parameters (a cached logarithm ...) exist when log_prob runs
                it_.call_function(h.methods["__init__"].node, [Poly.atom(r_) for r_ in roles[1:]], {}, bind_self=True)
            got_ = to_poly(it_.run(A.strip_docstring(lp.node.body)))
            itp_ = Interp({p_: Poly.atom(n_) for p_, n_ in zip(prim_params, names_)} | {"norm": Obj("norm"), "poisson": Obj("poissonlib"), **_module_constants(backend_cls.module)}, {"precision": "64b", "name": backend_cls.name.replace("_backend", ""), "dtypemap": {"float": PyFunc(lambda a, k: to_poly(a[0]), "float64"), "int": PyFunc(lambda a, k: to_poly(a[0]), "int64"), "bool": PyFunc(lambda a, k: a[0], "bool")}}, region_, methods={k_: v_.node for k_, v_ in backend_cls.methods.items()}, cls_name=backend_cls.name, externals=_dist_ext())
            want_ = to_poly(itp_.run(A.strip_docstring(backend_cls.methods[prim].node.body)))
            if got_ == want_:
                ctx.holds(rid, site, f"log_prob(value) computes what {prim}(value, {', '.join(roles[1:])}) computes: {str(got_)[:80]}")
            else:
                ctx.violated(rid, lp, prim, f"{helper_name}.log_prob does not evaluate {prim}: distribution object and primitive can disagree", expected=str(want_)[:160], found=str(got_)[:160], node=lp.node)
        except (Undecided, KeyError, TypeError, ValueError, IndexError, AttributeError) as e_:
            ctx.unrecognised(rid, lp, prim, f"{helper_name}.log_prob does not call {prim} and is not interpretable: {type(e_).__name__}: {e_}")
    else:
        c = calls[0]
        got = [A.dotted(a) for a in c.args]
        want = [roles[0]] + [f"self.{r}" for r in roles[1:]]
        handed = _logprob_interpreted(lp, prim, roles)
        if got == want and handed is not None and handed != "as given":
            ctx.violated(rid, lp, c, f"{helper_name}.log_prob converts the value it was given before evaluating {prim} ({handed}): a conversion to the PARAMETERS' dtype truncates non-integer observations when the rates / means are integer-typed, so the distribution object and the primitive disagree", expected=f"{prim}(value as given, ...)", found=handed, node=c)
        elif got == want:
            ctx.holds(rid, site, f"{prim}({', '.join(want)})" + ("" if handed is None else " with the value as given"))
        else:
            ctx.violated(rid, lp, c, f"argument roles of {prim} in {helper_name}.log_prob are swapped or wrong", expected=str(want), found=str(got), node=c)
    init = h.methods.get("__init__")
    if init is None and any((A.dotted(d.func) if isinstance(d, ast.Call) else A.dotted(d) or "").split(".")[-1] == "dataclass" for d in h.node.decorator_list):
        fields_ = [st_.target.id for st_ in h.node.body if isinstance(st_, ast.AnnAssign) and isinstance(st_.target, ast.Name)]
        if fields_ == list(roles[1:]):
            ctx.holds(rid, f"{rel}::{helper_name} [dataclass]", f"fields {fields_} in constructor order")
        else:
            ctx.violated(rid, h, "dataclass fields", f"{helper_name} does not store its parameters under their own names in constructor order", expected=str(list(roles[1:])), found=str(fields_), node=h.node)
        init = None
    elif init is None:
        ctx.unrecognised(rid, h, "__init__", f"{helper_name} has no constructor of its own")
    ps = [p for p in A.params_of(init.node) if p != "self"] if init is not None else []
    stored = {A.dotted(t): A.dotted(n.value) for n in ast.walk(init.node) if isinstance(n, ast.Assign) for t in n.targets} if init is not None else {}
    if init is None:
        pass
    elif all(stored.get(f"self.{p}") == p for p in ps) and ps == roles[1:]:
        ctx.holds(rid, f"{rel}::{helper_name}.__init__", f"stores {ps}")
    else:
        ctx.violated(rid, init, "__init__", f"{helper_name} does not store its parameters under their own names", found=str(stored), node=init.node)
    # <x>_dist returns helper(args in order): dist_value is an Obj named by the externals? no: evaluate structurally
    dm = backend_cls.methods["poisson_dist" if "Poisson" in helper_name else "normal_dist"]
    rets = [r for r in ast.walk(dm.node) if isinstance(r, ast.Return) and isinstance(r.value, ast.Call)]
    ok = rets and A.call_attr(rets[0].value) == helper_name and [A.dotted(a) for a in rets[0].value.args] == [p for p in A.params_of(dm.node) if p != "self"]
    if ok:
        ctx.holds(rid, f"{rel}::{backend_cls.name}.{dm.name}", f"{helper_name}({', '.join(A.params_of(dm.node)[1:])})")
    else:
        ctx.violated(rid, dm, dm.name, f"{dm.name} does not construct {helper_name} from its parameters in order", node=dm.node)
    sm = h.methods.get("sample")
    if sm is not None:
        okk = False
        for c in A.calls_in(sm.node):
            if A.call_attr(c) == "rvs":
                size = {k.arg: k.value for k in c.keywords}.get("size")
                if size is not None and isinstance(size, ast.BinOp) and isinstance(size.op, ast.Add) and A.dotted(size.left) == "sample_shape" and (A.dotted(size.right) or "").endswith(".shape"):
                    okk = True
        if okk:
            ctx.holds(rid, f"{rel}::{helper_name}.sample", "size = sample_shape + parameter.shape")
        else:
            ctx.violated(rid, sm, "rvs(size=...)", "samples do not have shape sample_shape + parameter shape", node=sm.node)


def _prec(ctx, rid, m, inp):
    """The first library call that consumes the raw input must carry a dtype derived from self.dtypemap."""
    from ..dep import Deps
    d = Deps(m.node)
    cands = []
    for c in A.calls_in(m.node, into_defs=False):
        nm = A.call_name(c) or ""
        if "." not in nm or nm.startswith(("log.", "self.")):
            continue
        if c.args and inp in A.names_loaded(c.args[0]):
            cands.append(c)
    site = f"{m.relpath}::{m.qualname}"
    if not cands:
        ctx.unrecognised(rid, m, m.name, f"no library constructor consuming `{inp}` found")
        return
    c = cands[0]
    kws = {k.arg: k.value for k in c.keywords}
    dt = kws.get("dtype") or kws.get("dtype_hint") or (c.args[1] if len(c.args) > 1 and (A.call_attr(c) not in ("ones", "zeros") or True) and any("dtype" in x for x in d.roots_of(c.args[1])) else None)
    if dt is not None and (d.depends_on(dt, "self.dtypemap") or "dtypemap" in A.unparse(dt)):
        ctx.holds(rid, f"{site}: {A.short(c, 60)}", "dtype from self.dtypemap at construction")
    else:
        ctx.violated(rid, m, c, f"`{A.short(c, 60)}` builds the tensor from python numbers without the target dtype: the library default precision applies first (python floats are binary64, tf defaults to float32) and a later cast cannot restore the lost digits",
                     expected="dtype=/dtype_hint=<self.dtypemap[...]>", found="no dtype at construction", node=c)


MODE_SWITCH_CALLS = {"set_flush_denormal", "set_float32_matmul_precision", "enable_mixed_precision_graph_rewrite", "set_fast_math", "enable_tensor_float_32_execution"}
MODE_SWITCH_ATTRS = {"allow_tf32", "allow_fp16_reduced_precision_reduction", "allow_bf16_reduced_precision_reduction"}
MODE_SWITCH_CONFIG_KEYS = {"jax_default_matmul_precision", "jax_numpy_dtype_promotion", "jax_disable_jit_denormals"}


def _mode_switches(tree):
    out = []
    for nd in ast.walk(tree):
        if isinstance(nd, ast.Call):
            nm = A.call_attr(nd)
            if nm in MODE_SWITCH_CALLS and not (nd.args and A.const_value(nd.args[0]) is False):
                out.append(nd)
            elif nm == "update" and nd.args and isinstance(A.const_value(nd.args[0]), str) and A.const_value(nd.args[0]) in MODE_SWITCH_CONFIG_KEYS:
                out.append(nd)
            elif nm in ("environ.setdefault", "setdefault", "putenv") and nd.args and isinstance(A.const_value(nd.args[0]), str) and "XLA_FLAGS" in A.const_value(nd.args[0]):
                out.append(nd)
        elif isinstance(nd, ast.Assign):
            for t in nd.targets:
                if isinstance(t, ast.Attribute) and t.attr in MODE_SWITCH_ATTRS and A.const_value(nd.value) is not False:
                    out.append(nd)
                if isinstance(t, ast.Subscript) and A.const_value(t.slice) == "XLA_FLAGS":
                    out.append(nd)
    return out


def _numeric_mode(ctx, rid, repo):
    # positive control: the matcher must recognise the constructs it is meant to find
    control = ast.parse("import torch, jax\ntorch.set_flush_denormal(True)\ntorch.backends.cuda.matmul.allow_tf32 = True\njax.config.update('jax_default_matmul_precision', 'bfloat16')\n")
    if len(_mode_switches(control)) == 3:
        ctx.holds(rid, "matcher self-test", "3 of 3 embedded mode switches recognised")
    else:
        ctx.error("C04.R7: the mode-switch matcher does not recognise its own positive control")
    hits = 0
    nmod = 0
    for m in repo.modules.values():
        if not m.relpath.startswith("src/pyhf/"):
            continue
        nmod += 1
        for nd in _mode_switches(m.tree):
            hits += 1
            ctx.violated(rid, (m.relpath, "<module>"), nd, f"`{A.short(nd, 70)}` switches a process-wide numeric mode of the tensor library: values that were representable (denormal rates, tail probabilities) are flushed or rounded differently from then on, for every backend used later in the process", expected="no numeric mode switch in the package", node=nd)
    if not hits:
        ctx.holds(rid, f"src/pyhf ({nmod} modules)", "no denormal-flush / reduced-precision / fast-math switch")


INT_TRUNCATING_CALLS = {"reciprocal", "floor_divide", "floordiv", "trunc_divide"}
FLOATING_CALLS = {"astensor", "asarray", "array", "float", "astype", "as_tensor", "convert_to_tensor", "cast", "to", "true_divide", "divide", "sqrt", "exp", "log", "float64", "float32", "double"}


def _int_truncations(fnode):
    """Operations of numpy semantics that keep an INTEGER input integer and truncate (reciprocal(2) == 0, 7 // 2 == 3),
    applied to an expression built from the function's parameters by arithmetic alone (no call that could have made it a
    float, no true division, no float literal).  -> [(node, parameter names)]"""
    params = set(A.params_of(fnode)) - {"self"}
    defs = {}
    for st in ast.walk(fnode):
        if isinstance(st, ast.Assign) and len(st.targets) == 1 and isinstance(st.targets[0], ast.Name):
            defs.setdefault(st.targets[0].id, []).append(st.value)

    def int_typed(e, depth=0):
        """parameter names reached when e may still be integer-typed; None when something made it floating"""
        if depth > 6:
            return None
        if isinstance(e, ast.Name):
            if e.id in defs and e.id not in params:
                out = set()
                for d in defs[e.id]:
                    r = int_typed(d, depth + 1)
                    if r is None:
                        return None
                    out |= r
                return out
            return {e.id} if e.id in params else set()
        if isinstance(e, ast.Constant):
            return None if isinstance(e.value, float) else set()
        if isinstance(e, ast.UnaryOp):
            return int_typed(e.operand, depth + 1)
        if isinstance(e, ast.BinOp):
            if isinstance(e.op, ast.Div):
                return None
            l, r = int_typed(e.left, depth + 1), int_typed(e.right, depth + 1)
            return None if l is None or r is None else l | r
        if isinstance(e, ast.Call) and A.call_attr(e) in ("subtract", "add", "multiply", "negative", "abs", "absolute", "square") and not e.keywords:
            out = set()
            for a in e.args:
                r = int_typed(a, depth + 1)
                if r is None:
                    return None
                out |= r
            return out
        return None  # any other call / construct: not known to be integer

    hits = []
    for nd in ast.walk(fnode):
        ops = None
        if isinstance(nd, ast.Call) and A.call_attr(nd) in INT_TRUNCATING_CALLS and nd.args and isinstance(nd.func, ast.Attribute) and (A.dotted(nd.func.value) or "") in ("np", "numpy", "onp"):
            if any(k.arg == "dtype" for k in nd.keywords):
                continue
            ops = nd.args[:2] if A.call_attr(nd) != "reciprocal" else nd.args[:1]
        elif isinstance(nd, ast.BinOp) and isinstance(nd.op, ast.FloorDiv):
            ops = [nd.left, nd.right]
        if ops is None:
            continue
        reached = set()
        floating = False
        for o in ops:
            r = int_typed(o)
            if r is None:
                floating = True
            else:
                reached |= r
        if reached and not floating:
            hits.append((nd, sorted(reached)))
    return hits


def _int_dtype(ctx, rid, repo):
    control = ast.parse("def f(self, x, mu=0, sigma=1):\n    z = np.subtract(x, mu) * np.reciprocal(sigma)\n    w = np.reciprocal(np.asarray(sigma, dtype=float))\n    return z + w + x // sigma + x / 2 // sigma\n").body[0]
    got = _int_truncations(control)
    if len(got) == 2:
        ctx.holds(rid, "matcher self-test", "2 integer-truncating operations recognised, the 2 floating ones left alone")
    else:
        ctx.error(f"C04.R8: the integer-truncation matcher does not recognise its own control ({len(got)} hits)")
    n = 0
    bad = 0
    for b, (rel, cname) in BACKENDS.items():
        c = repo.cls(rel, cname)
        for mname in PROB_METHODS:
            m = c.methods.get(mname)
            if m is None:
                continue
            n += 1
            for nd, ps in _int_truncations(m.node):
                bad += 1
                ctx.violated(rid, m, nd, f"`{A.short(nd, 60)}` applies an operation that truncates on integer input to the caller's {', '.join(ps)} as given: with an integer-typed argument (the signature defaults are python ints; `sigma=2`, an int tensor) 1/sigma becomes 0 and the function returns a constant", expected="convert to the backend's floating type first (astensor / true division)", found="integer arithmetic on a caller-supplied value", node=nd)
    if not bad:
        ctx.holds(rid, f"probability primitives of {len(BACKENDS)} backends ({n} methods)", "no integer-truncating operation on caller-supplied values")
