"""C10 -- batched evaluation equals row-by-row evaluation (structural necessary conditions).

  R1 SHAPE  the batch size enters every applier mask / the nominal tensor at the batch axis
            (tile(..., (1, 1, batch or 1, 1))), access fields as (n_mods, batch or 1, 1), constraint
            widths on the leading axis
  R2 SIB    per applier / constraint: the batched arm flattens the parameters before gathering and the
            unbatched arm does not; in einsum-based appliers the parameter operand carries the output's
            batch letter on the batched arm only
  R3 DEP    no reduction without an explicit axis (or with axis=None) on the evaluation path; the joint
            log-density reduces bins (last axis) and stacked terms (axis 0) only
  R4 ORDER  the leading row is stripped ([0] / reshape to (1,)) only when batch_size is None
"""

from __future__ import annotations

import ast

from .. import astutil as A
from ..alg import Interp, Obj, Poly, Undecided, to_poly
from .c01 import registry

EXPLANATION = (
    "Batch-axis threading is read off the source: the repeat tuple of every tile() that builds a persistent tensor "
    "must carry `batch_size or 1` at the batch position of that tensor's role (mask/nominal: axis 2 of 4; access "
    "field: axis 1 of 3; constraint widths: axis 0 of 2); the batched/unbatched sibling arms selected by "
    "`self.batch_size is None` must differ exactly in flattening before gather, in the einsum batch letter and in "
    "stripping the leading row; reductions on the evaluation path must name their axis. NOT decided: row-by-row "
    "numerical equality, sample shapes of the backend RNGs."
)
ASSUMPTIONS = ["axis roles (modifier, sample, batch, bin) of the applier tensors as documented in the apply() docstrings", "einsum subscript semantics"]
PDF, CON, PROB = "src/pyhf/pdf.py", "src/pyhf/constraints.py", "src/pyhf/probability.py"
EVAL_METHODS = {"apply", "make_pdf", "logpdf", "expected_data", "log_prob", "_joint_logpdf", "modifications", "get", "split", "stitch", "__call__"}


def _tile_calls(fnode):
    return [c for c in A.calls_in(fnode) if A.call_attr(c) == "tile" and len(c.args) >= 2 and isinstance(c.args[1], ast.Tuple)]


def _is_batch(e):
    t = A.unparse(e).replace(" ", "")
    return t in ("self.batch_sizeor1", "self.batch_size", "batch_sizeor1", "batch_size")


def run(ctx):
    repo = ctx.repo
    reg = registry(repo)
    r1 = ctx.rule("C10.R1", "SHAPE: tile repeat tuples place `batch_size or 1` at the batch axis: (1,1,B,1) for masks and nominal rates, (n_mods,B,1) for access fields, (B,1) for constraint widths; every other entry is 1 / the modifier count", "SHAPE", floor=12)
    r2 = ctx.rule("C10.R2", "SIB: under `self.batch_size is None` the unbatched arm uses the parameters as given, the batched arm flattens them (reshape(pars, (-1,))) before gather; einsum parameter operands carry the output's batch letter on the batched arm only", "SIB", floor=6)
    r3 = ctx.rule("C10.R3", "DEP: every sum/product/mean on the evaluation path names an axis that is not None", "DEP", floor=6)
    r4 = ctx.rule("C10.R4", "ORDER: `[0]` row stripping / reshape to (1,) of evaluation results happens only under `batch_size is None` (resp. `not batch_size`)", "ORDER", floor=2)

    # ------------------------------------------------------------ R1
    for key, (b, c) in sorted(reg.items()):
        for m in c.methods.values():
            ctx.touch(m)
        for mname in ("_precompute", "__init__"):
            m = c.methods.get(mname)
            if m is None:
                continue
            for t in _tile_calls(m.node):
                reps = t.args[1].elts
                site = f"{c.relpath}::{c.name}.{mname}: {A.short(t, 70)}"
                pos = [i for i, e in enumerate(reps) if _is_batch(e)]
                if len(reps) == 4:
                    ok = pos == [2] and all(A.const_value(e) == 1 for i, e in enumerate(reps) if i != 2)
                    want = "(1, 1, batch_size or 1, 1)"
                elif len(reps) == 3:
                    ok = pos == [1] and A.const_value(reps[2]) == 1 and "len(" in A.unparse(reps[0])
                    want = "(len(mods), batch_size or 1, 1)"
                else:
                    ok, want = None, ""
                if ok is None:
                    ctx.unrecognised(r1, m, t, "tile with an unexpected rank")
                elif ok:
                    ctx.holds(r1, site, f"batch at axis {pos[0]} of {len(reps)}")
                else:
                    ctx.violated(r1, m, t, "the batch size is tiled into the wrong axis of this tensor (or a non-batch axis is repeated): rows of a batch share or mix their modifier/sample/bin entries", expected=want, found=A.short(t.args[1], 60), node=t)
    mm = repo.method(PDF, "_MainModel", "__init__")
    ctx.touch(mm)
    for t in _tile_calls(mm.node):
        reps = t.args[1].elts
        pos = [i for i, e in enumerate(reps) if _is_batch(e)]
        if len(reps) == 4 and pos == [2] and all(A.const_value(e) == 1 for i, e in enumerate(reps) if i != 2):
            ctx.holds(r1, f"{PDF}::_MainModel.__init__: {A.short(t, 60)}", "nominal rates tiled at the batch axis")
        else:
            ctx.violated(r1, mm, t, "nominal rates are not tiled (1, 1, batch, 1)", found=A.short(t.args[1], 60), node=t)
    for cname in ("gaussian_constraint_combined", "poisson_constraint_combined"):
        ci = repo.method(CON, cname, "__init__")
        ctx.touch(ci)
        tiles = _tile_calls(ci.node)
        if not tiles:
            # the other idiom: the table is kept as ONE row of shape (1, n), which broadcasts against (batch, n); that every
            # row evaluates with it is decided by R6, that sampling sizes its draws correctly with it by R7
            rows1 = [cc for cc in A.calls_in(ci.node) if A.call_attr(cc) == "reshape" and len(cc.args) == 2 and isinstance(cc.args[1], ast.Tuple) and [A.const_value(e) for e in cc.args[1].elts] == [1, -1]]
            if rows1:
                ctx.holds(r1, f"{CON}::{cname}.__init__: {A.short(rows1[0], 60)}", "constraint table kept as one broadcasting row (1, n)")
            else:
                ctx.unrecognised(r1, ci, "tile", "no width tiling found")
        for t in tiles:
            reps = t.args[1].elts
            pos = [i for i, e in enumerate(reps) if _is_batch(e)]
            if len(reps) == 2 and pos == [0] and A.const_value(reps[1]) == 1:
                ctx.holds(r1, f"{CON}::{cname}.__init__: {A.short(t, 60)}", "constraint widths tiled on the leading (batch) axis")
            else:
                ctx.violated(r1, ci, t, "constraint widths are not tiled (batch, 1)", found=A.short(t.args[1], 60), node=t)

    # ------------------------------------------------------------ R5: parameter-field shape handed to every ParamViewer
    r5 = ctx.rule("C10.R5", "VIEW: every ParamViewer built by an applier or a combined constraint is told the parameter field is (batch_size, npars) when batched and (npars,) / (1, npars) when not -- npars being the configuration's parameter count, not the number of parameter sets", "VIEW", floor=18)
    owners = [(c, c.methods.get("__init__")) for _, (b, c) in sorted(reg.items())]
    owners += [(repo.cls(CON, n), repo.cls(CON, n).methods.get("__init__")) for n in ("gaussian_constraint_combined", "poisson_constraint_combined")]
    for c, init in owners:
        if init is None:
            ctx.unrecognised(r5, c, "__init__", "no constructor")
            continue
        ctx.touch(init)
        for bs in (None, 3):
            seen = {}

            class _Stop(Exception):
                pass

            def pv(a, k, seen=seen):
                seen["shape"] = a[0] if a else k.get("tensor_shape")
                raise _Stop()

            cfg = Obj("pdfconfig", {"npars": Poly.const(7), "par_order": ["p1", "p2"], "par_map": Obj("PARMAP"), "samples": ["s1"], "channels": ["c1"], "channel_nbins": {"c1": Poly.const(1)}, "auxdata": [Poly.atom("x0")], "auxdata_order": []})
            env = {"modifiers": [("m1", "t")], "pdfconfig": cfg, "builder_data": {}, "batch_size": None if bs is None else Poly.const(bs), "interpcode": "code0", "pyhf": Obj("pyhf"), "events": Obj("events")}
            site = f"{c.relpath}::{c.name}.__init__ [batch_size={bs}]"
            try:
                Interp(env, {}, {}, cls_name=c.name, externals={"ParamViewer": pv, "param_set": lambda a, k: Obj("parset")}).run(A.strip_docstring(init.node.body))
            except _Stop:
                pass
            except Undecided as e:
                if "shape" not in seen:
                    ctx.unrecognised(r5, init, f"ParamViewer shape [batch_size={bs}]", f"constructor not interpretable up to the ParamViewer call: {e}")
                    continue
            if "shape" not in seen:
                ctx.unrecognised(r5, init, f"ParamViewer shape [batch_size={bs}]", "no ParamViewer is constructed")
                continue
            try:
                shp = [str(to_poly(x)) for x in seen["shape"]]
            except (Undecided, TypeError):
                shp = [str(seen["shape"])]
            ok = shp == ["3", "7"] if bs else shp in (["7"], ["1", "7"])
            if ok:
                ctx.holds(r5, site, f"parameter field shape {tuple(shp)}")
            else:
                ctx.violated(r5, init, f"ParamViewer shape [batch_size={bs}]", "the parameter viewer is built for a parameter field whose shape is not (batch_size, npars) / (npars,): rows of a batch (or parameters beyond the first few) are gathered from the wrong positions", expected="(3, npars=7)" if bs else "(7,) or (1, 7) for npars=7 (2 parameter sets)", found=str(tuple(shp)))

    # ------------------------------------------------------------ R6: every batch row is evaluated with its own parameters
    r6 = ctx.rule("C10.R6", "ROWS: all seven appliers, the constraint model and the main model interpreted END TO END with 2 batch rows of DIFFERENT symbolic parameters (and unbatched): each row of the batched result equals the unbatched evaluation at that row's parameters -- no row reads another row's parameters, auxiliary data or cached tensors (shared engines with C01.R9, C01.R10, C01.R12, C02.R9)", "ROWS", floor=20)
    from .c01 import _apply_end_to_end, _apply_interpolating, _build_end_to_end, _rate_end_to_end
    from .c02 import _constraint_template
    _build_end_to_end(ctx, r6, reg)  # the batch size of THIS model reaches every applier, also for the second model built from one settings object
    _apply_end_to_end(ctx, r6, reg)
    _apply_interpolating(ctx, r6, reg)
    _rate_end_to_end(ctx, r6)
    _constraint_template(ctx, r6, repo)
    from . import viewers
    viewers.check(ctx, r6)  # the viewers every batched evaluation splits / stitches / gathers through, flat and with batch rows, with in-place refilled buffers

    r7 = ctx.rule("C10.R7", "SAMPLE-SHAPE: the distribution parameters the batched constraint model hands to normal_dist / poisson_dist (captured by interpreting _ConstraintModel.make_pdf with 2 batch rows) and the sampling code of the numpy and jax distribution classes compose: rvs is asked for sample_shape + (batch rows, components) -- whatever shapes the means, widths and rates are kept in, and whichever of them the sampler reads the shape from", "SHAPE", floor=4)
    _sample_shapes(ctx, r7, repo)

    r8 = ctx.rule("C10.R8", "OPS: the array operations the batched arms are written against (reshape to flatten the parameter rows, tile, gather, einsum, sum / product with an axis, stack, concatenate, where ...) on all four backends hand the caller's arguments to the library function of that operation in their own roles and in row-major element order (engine shared with C01.R15)", "OPS", floor=80)
    from . import backend_ops
    backend_ops.check(ctx, r8)

    # ------------------------------------------------------------ R2 / R4
    targets = [(c, c.methods["apply"]) for _, (b, c) in sorted(reg.items())]
    for cname in ("gaussian_constraint_combined", "poisson_constraint_combined"):
        c = repo.cls(CON, cname)
        targets.append((c, c.methods["make_pdf"]))
    for c, m in targets:
        ctx.touch(m)
        site = f"{c.relpath}::{c.name}.{m.name}"
        # the two arms of every `self.batch_size is None` decision, as a statement (if / else) or as a conditional expression
        ifs = [n for n in ast.walk(m.node) if isinstance(n, (ast.If, ast.IfExp)) and A.unparse(n.test).replace(" ", "") == "self.batch_sizeisNone"]

        def arms(n):
            return (n.body, n.orelse) if isinstance(n, ast.If) else ([n.body], [n.orelse])

        def calls_of(nodes, attr):
            return [cc for st in nodes for cc in ast.walk(st) if isinstance(cc, ast.Call) and A.call_attr(cc) == attr]

        gathers = [cc for cc in A.calls_in(m.node) if A.call_attr(cc) == "gather"]
        einsums = [cc for cc in A.calls_in(m.node) if A.call_attr(cc) == "einsum"]
        flat_if = None
        flat_name = None
        t_val = f_val = None
        gathered = {g.args[0].id for g in gathers if g.args and isinstance(g.args[0], ast.Name)}
        for n in ifs:
            if not isinstance(n, ast.If):
                continue
            names_t = {nm for st in n.body for nm in _assigned(st)}
            names_f = {nm for st in n.orelse for nm in _assigned(st)}
            both = names_t & names_f & gathered
            if both:
                flat_if, flat_name = n, sorted(both)[0]
                t_val = next(st.value for st in flat_if.body if flat_name in _assigned(st))
                f_val = next(st.value for st in flat_if.orelse if flat_name in _assigned(st))
        for g in gathers:  # the same decision written as an expression, in place or through a local
            src = g.args[0] if g.args else None
            if isinstance(src, ast.Name) and src.id in gathered:
                defs = [st.value for st in ast.walk(m.node) if isinstance(st, ast.Assign) and src.id in _assigned(st)]
                src = defs[0] if len(defs) == 1 else src
            if isinstance(src, ast.IfExp) and src in ifs and flat_if is None:
                flat_if, t_val, f_val = src, src.body, src.orelse
                gathered = gathered | {"<conditional>"}
        if gathers and gathered and not (gathered <= {"auxdata"}) and any(gg not in A.params_of(m.node) for gg in gathered):
            if flat_if is None:
                ctx.violated(r2, m, "gather(...)", "parameters are gathered through a local tensor but there is no batched/unbatched pair of definitions for it", node=m.node)
            else:
                ok_t = A.unparse(t_val) == "pars"
                ok_f = isinstance(f_val, ast.Call) and f_val.args and A.dotted(f_val.args[0]) == "pars" and ((A.call_attr(f_val) == "reshape" and len(f_val.args) > 1 and A.const_value(f_val.args[1]) in ((-1,), [-1], -1)) or (A.call_attr(f_val) == "ravel" and len(f_val.args) == 1 and not f_val.keywords))  # row-major ravel IS reshape(x, (-1,)) on every backend (C10.R8)
                if ok_t and ok_f:
                    ctx.holds(r2, site, "unbatched: pars; batched: reshape(pars, (-1,)) before gather")
                else:
                    ctx.violated(r2, m, flat_if, "the batched arm does not flatten the (batch, npars) parameters before gathering with flat indices (or the unbatched arm does): row 1 reads row 0's parameters", expected="pars | reshape(pars, (-1,))", found=f"{A.short(t_val, 40)} | {A.short(f_val, 40)}", node=flat_if)
        # einsum pairs under batch_size is None
        for n in ifs:
            et = calls_of(arms(n)[0], "einsum")
            ef = calls_of(arms(n)[1], "einsum")
            if et and ef:
                st_, sf_ = A.const_value(et[0].args[0]), A.const_value(ef[0].args[0])
                ok = _einsum_pair(st_, sf_)
                if ok is True:
                    ctx.holds(r2, f"{site}: einsum {st_!r} / {sf_!r}", "parameter operand gains the batch letter on the batched arm only")
                elif ok is None:
                    ctx.unrecognised(r2, m, et[0], "einsum pair with an unexpected form")
                else:
                    ctx.violated(r2, m, n, f"batched/unbatched einsum pair is inconsistent: {ok}", expected="'msab,m->msab' / 'msab,ma->msab'-like pair", found=f"{st_!r} / {sf_!r}", node=n)
        # interpolating appliers: alpha set fetched with explicit column indices when unbatched, default (batched) indices otherwise
        for n in ifs:
            gt = [cc for cc in calls_of(arms(n)[0], "get") if "param_viewer" in (A.dotted(cc.func.value) or "")]
            gf = [cc for cc in calls_of(arms(n)[1], "get") if "param_viewer" in (A.dotted(cc.func.value) or "")]
            has_einsum = bool(calls_of(arms(n)[0] + arms(n)[1], "einsum"))
            if gt and gf and not has_einsum:
                if len(gt[0].args) == 2 and len(gf[0].args) == 1 and A.dotted(gt[0].args[0]) == "pars" and A.dotted(gf[0].args[0]) == "pars":
                    ctx.holds(r2, f"{site}: alpha set", "unbatched: get(pars, indices as a column); batched: get(pars) with the viewer's (mods, batch) indices")
                else:
                    ctx.violated(r2, m, n, "the alpha set is not fetched with column indices on the unbatched arm and the viewer's batched indices on the batched arm", found=f"{A.short(gt[0], 40)} | {A.short(gf[0], 40)}", node=n)
        # R4: [0] stripping in this method
        for sub in ast.walk(m.node):
            if isinstance(sub, ast.Subscript) and A.const_value(sub.slice) == 0 and isinstance(sub.ctx, ast.Load) and isinstance(sub.value, ast.Name) and sub.value.id not in ("shape",):
                _check_strip(ctx, r4, m, sub)

    # other [0] strips: _MainModel.expected_data, Model.logpdf
    ed = repo.method(PDF, "_MainModel", "expected_data")
    ctx.touch(ed)
    for sub in ast.walk(ed.node):
        if isinstance(sub, ast.Subscript) and A.const_value(sub.slice) == 0 and isinstance(sub.value, ast.Name):
            _check_strip(ctx, r4, ed, sub)
    lp = repo.method(PDF, "Model", "logpdf")
    ctx.touch(lp)
    resh = [c for c in A.calls_in(lp.node) if A.call_attr(c) == "reshape"]
    pm = A.parent_map(lp.node)
    for c in resh:
        g = A.enclosing(c, pm, ast.If)
        if g is not None and A.unparse(g.test).replace(" ", "") in ("notself.batch_size", "self.batch_sizeisNone"):
            ctx.holds(r4, f"{PDF}::Model.logpdf: {A.short(c, 40)}", "only when unbatched")
        else:
            ctx.violated(r4, lp, c, "the log-density is reshaped to a single value although a batch of rows was evaluated", node=c)

    # ------------------------------------------------------------ R3
    scan = []
    for rel in [PDF, CON, PROB] + sorted({c.relpath for _, (b, c) in reg.items()}):
        mod = repo.module(rel)
        for cl in mod.classes.values():
            if cl.name.endswith("_builder") or cl.name == "_nominal_builder":
                continue
            for mname, m in cl.methods.items():
                if mname in EVAL_METHODS:
                    scan.append(m)
    n_red = 0
    for m in scan:
        ctx.touch(m)
        from ..prov import FuncProv
        handles = set(FuncProv(m.node).handles)
        for c in A.calls_in(m.node):
            if A.call_attr(c) in ("sum", "product", "mean", "prod") and isinstance(c.func, ast.Attribute) and A.dotted(c.func.value) in handles:
                n_red += 1
                kws = {k.arg: k.value for k in c.keywords}
                ax = kws.get("axis", c.args[1] if len(c.args) > 1 else None)
                if ax is None or A.const_value(ax) is None:
                    ctx.violated(r3, m, c, "a reduction over all axes on the evaluation path sums the rows of a batch into one number", expected="an explicit axis", found=A.short(c, 60), node=c)
                else:
                    ctx.holds(r3, f"{m.relpath}::{m.qualname}: {A.short(c, 50)}", f"axis={A.short(ax, 10)}")
    ctx.extra["reductions_scanned"] = n_red


def _assigned(st):
    out = []
    if isinstance(st, ast.Assign):
        for t in st.targets:
            out += A.assigned_names(t)
    return out


def _einsum_pair(unbatched, batched):
    try:
        iu, ou = unbatched.split("->")
        ib, ob = batched.split("->")
        mu, pu = iu.split(",")
        mb, pb = ib.split(",")
    except Exception:
        return None
    if ou != ob or mu != mb or ou != mu or len(ou) != 4:
        return "mask/output subscripts differ between the arms"
    batch_letter = ou[2]
    if batch_letter in pu:
        return f"the unbatched parameter operand '{pu}' carries the batch letter '{batch_letter}'"
    if batch_letter not in pb:
        return f"the batched parameter operand '{pb}' lacks the batch letter '{batch_letter}': every row gets the same parameters"
    if pb.replace(batch_letter, "") != pu:
        return f"parameter operands differ by more than the batch letter ('{pu}' vs '{pb}')"
    if pb.index(batch_letter) != len(pb) - 1:
        return f"batch letter is not the trailing axis of the gathered parameters ('{pb}')"
    return True


def _check_strip(ctx, rid, m, sub):
    pm = A.parent_map(m.node)
    g = A.enclosing(sub, pm, ast.If)
    ok = False
    while g is not None:
        t = A.unparse(g.test).replace(" ", "")
        if t in ("self.batch_sizeisNone", "notself.batch_size"):
            ok = any(n is sub for st in g.body for n in ast.walk(st))
            break
        g = A.enclosing(g, pm, ast.If)
    site = f"{m.relpath}::{m.qualname}: {A.short(sub, 30)}"
    if ok:
        ctx.holds(rid, site, "leading row stripped only when batch_size is None")
    else:
        ctx.violated(rid, m, sub, "the leading (batch) row is stripped unconditionally: a batched evaluation returns only row 0", expected="inside `if self.batch_size is None:`", node=sub)


def _sample_shapes(ctx, rid, repo):
    from .. import listnp
    from ..alg import FragmentFault, NotHandled, Obj, Poly, PyFunc, RaisedInFragment, Undecided, to_poly
    from ..objmodel import Instance, World
    from . import viewers
    from .c02 import PDF, PROB
    at, c = Poly.atom, Poly.const
    errs = (Undecided, KeyError, TypeError, ValueError, IndexError, AttributeError)
    cmc = repo.cls(PDF, "_ConstraintModel")

    def sl(a_, b_):
        return Obj("slice", {"start": c(a_), "stop": c(b_)})

    # ---- what the batched constraint model hands over
    handed = {}
    B = 2
    try:
        # REAL parameter-set objects (parameters/paramsets.py interpreted): what a set without configured widths looks like is the
        # classes' business, not this rule's
        from .c02 import real_paramsets
        psets = real_paramsets(repo, {
            "g1": ("constrained_by_normal", 2, {"auxdata": [at("ng0"), at("ng1")], "sigmas": [at("s0"), at("s1")]}),
            "p1": ("constrained_by_poisson", 2, {"auxdata": [at("np0"), at("np1")], "factors": [at("f0"), at("f1")]}),
            "g2": ("constrained_by_normal", 1, {"auxdata": [at("ng2")]}),
        })
        slices, aux_order = {"mu": (0, 1), "p1": (1, 3), "g1": (3, 5), "g2": (5, 6)}, ["g1", "p1", "g2"]

        def dist(kind):
            def f(a, k):
                handed.setdefault(kind, []).append(list(a))
                return Obj(kind, {"args": list(a)})
            return f

        w = viewers.world(repo, {"normal_dist": dist("normal_dist"), "poisson_dist": dist("poisson_dist"), "param_set": lambda a, k: psets[a[0]]})
        w.add_class(cmc)
        for cn in ("gaussian_constraint_combined", "poisson_constraint_combined"):
            w.add_class(repo.cls(CON, cn))
        pattrs = {}
        for cn in ("_SimpleDistributionMixin", "Poisson", "Normal", "Independent", "Simultaneous"):
            k_ = repo.cls(PROB, cn)
            w.add_class(k_)
            pattrs[cn] = PyFunc(lambda a, kw, k_=k_, w=w: w.new(k_, a, kw), cn)
        w.module_env["prob"] = Obj("prob", pattrs)
        for rel_ in (PDF, CON, PROB):
            w.load_globals(repo.module(rel_))
        cfg = Obj("config", {"npars": c(6), "par_map": {n: {"slice": sl(*se)} for n, se in slices.items()}, "auxdata": [at(f"nominal_aux{j}") for j in range(5)], "auxdata_order": list(aux_order)})
        cm = w.new(cmc, [cfg, c(B)], {})
        pars = listnp.T([[at(f"theta{r}_{j}") for j in range(6)] for r in range(B)])
        w.call_method(cm, "make_pdf", [pars])
    except (FragmentFault, RaisedInFragment) as e:
        ctx.violated(rid, cmc, "_ConstraintModel.make_pdf [batch_size=2]", f"a batched constraint model cannot build its pdf on a well-formed configuration: {e}")
        return
    except errs as e:
        ctx.unrecognised(rid, cmc, "_ConstraintModel.make_pdf [batch_size=2]", f"not interpretable: {type(e).__name__}: {e}")
        return
    if not handed.get("normal_dist") or not handed.get("poisson_dist"):
        ctx.unrecognised(rid, cmc, "_ConstraintModel.make_pdf [batch_size=2]", f"no normal_dist / poisson_dist constructed: {sorted(handed)}")
        return
    shapes = {k_: [listnp._shape(x) if isinstance(x, (list, tuple)) else () for x in v[-1]] for k_, v in handed.items()}
    ctx.extra["constraint_distribution_parameter_shapes"] = {k_: [list(x) for x in v] for k_, v in shapes.items()}

    def bshape(shs):
        n = max(len(x) for x in shs)
        out = []
        for d in range(n):
            dims = {x[len(x) - n + d] for x in shs if len(x) - n + d >= 0} - {1}
            if len(dims) > 1:
                raise FragmentFault(f"shapes {shs} do not broadcast")
            out.append(dims.pop() if dims else 1)
        return tuple(out)

    def filled(shape, tag):
        def rec(d, pre):
            if d == len(shape):
                return at(tag + "_".join(map(str, pre)))
            return [rec(d + 1, pre + (i,)) for i in range(shape[d])]
        return listnp.wrap(rec(0, ()))

    # ---- the samplers
    for rel in ("src/pyhf/tensor/numpy_backend.py", "src/pyhf/tensor/jax_backend.py"):
        for cname, kind, fields in (("_BasicNormal", "normal_dist", ("loc", "scale")), ("_BasicPoisson", "poisson_dist", ("rate",))):
            k_ = repo.cls(rel, cname)
            m = k_.methods.get("sample") if k_ else None
            if m is None:
                ctx.unrecognised(rid, repo.module(rel), f"{cname}.sample", "not found")
                continue
            ctx.touch(m)
            site = f"{rel}::{cname}.sample [parameters shaped as the batched constraint model hands them: {shapes[kind]}]"
            try:
                asked = []

                def frozen(a, k):
                    return Obj("frozen", {"args": list(a)})

                def rvs(recv, a, k):
                    if not (isinstance(recv, Obj) and recv.name == "frozen"):
                        raise NotHandled()
                    asked.append(k.get("size", a[0] if a else None))
                    return Obj("draws")

                ext = listnp.externals()
                ident = lambda a, k: a[0]
                ext.update({"__strict__": True, "norm": frozen, "poisson": frozen, ".rvs": rvs, "asarray": ident, "array": ident, "astensor": ident})
                wb = World(ext, module_env={n_: Obj(n_) for n_ in ("np", "jnp", "osp_stats", "jax", "scipy")})
                wb.add_class(k_)
                inst = Instance(k_)
                for f_, sh_ in zip(fields, shapes[kind]):
                    inst.attrs[f_] = filled(sh_, f_)
                wb.call_method(inst, "sample", [(c(7),)])
                want = (7,) + bshape(shapes[kind])
                got = tuple(int(to_poly(x).const_value()) for x in asked[-1]) if asked and isinstance(asked[-1], (list, tuple)) else None
                if got == want:
                    ctx.holds(rid, site, f"rvs(size={got}) = sample_shape + (rows, components)")
                else:
                    ctx.violated(rid, m, f"{cname}.sample size", f"pseudo-data drawn from a batched model do not have shape sample_shape + (batch rows, components): the constraint model keeps its distribution parameters in shapes {shapes[kind]} and this sampler sizes the draw from one of them that does not carry every batch row", expected=f"size={want}", found=f"size={got}", node=m.node)
            except (FragmentFault, RaisedInFragment) as e:
                ctx.violated(rid, m, f"{cname}.sample", f"sampling fails on the parameters the batched constraint model hands over: {e}", node=m.node)
            except errs as e:
                ctx.unrecognised(rid, m, f"{cname}.sample", f"not interpretable: {type(e).__name__}: {e}")
