"""Intra-procedural dependence (DEP): which roots does a value depend on.

Flow-insensitive over-approximation inside one function: a local name
depends on everything any of its definitions reads.  Roots are parameter
names, ``self.attr`` chains and free/global names.  Mutating method calls
(`x.append(y)`, `x.update(y)`, `x += y`, `x[k] = y`) make ``x`` depend on ``y``.
"""

from __future__ import annotations

import ast

from . import astutil as A

MUTATORS = {
    "append", "extend", "insert", "update", "add", "setdefault", "__setitem__",
}


class Deps:
    def __init__(self, fn_node, *, into_defs=True):
        self.fn = fn_node
        self.direct: dict[str, set[str]] = {}
        self.defs: dict[str, list[ast.AST]] = {}  # name -> defining value exprs
        self._collect(fn_node, into_defs)
        self._closure = None

    def _add(self, tgt, value_node, extra=()):
        names = set(A.names_loaded(value_node)) if value_node is not None else set()
        names |= set(extra)
        for nm in A.assigned_names(tgt) if not isinstance(tgt, str) else [tgt]:
            self.direct.setdefault(nm, set()).update(names - {nm})
            if value_node is not None:
                self.defs.setdefault(nm, []).append(value_node)

    def _collect(self, root, into_defs):
        body = root.body if hasattr(root, "body") and isinstance(root.body, list) else [root]
        for st in body:
            for n in A.walk_ordered(st, into_defs=into_defs):
                if isinstance(n, ast.Assign):
                    for t in n.targets:
                        self._assign(t, n.value)
                elif isinstance(n, ast.AnnAssign) and n.value is not None:
                    self._assign(n.target, n.value)
                elif isinstance(n, ast.AugAssign):
                    self._add(n.target, n.value)
                elif isinstance(n, (ast.For, ast.AsyncFor)):
                    self._assign_iter(n.target, n.iter)
                elif isinstance(n, ast.comprehension):
                    self._assign_iter(n.target, n.iter)
                elif isinstance(n, (ast.With, ast.AsyncWith)):
                    for it in n.items:
                        if it.optional_vars is not None:
                            self._add(it.optional_vars, it.context_expr)
                elif isinstance(n, ast.NamedExpr):
                    self._add(n.target, n.value)
                elif isinstance(n, ast.Call) and isinstance(n.func, ast.Attribute):
                    if n.func.attr in MUTATORS:
                        recv = A.dotted(n.func.value)
                        if recv:
                            recv = ".".join(recv.split(".")[:2]) if recv.startswith("self.") else recv.split(".")[0]
                            for a in list(n.args) + [k.value for k in n.keywords]:
                                self.direct.setdefault(recv, set()).update(A.names_loaded(a) - {recv})
                                self.defs.setdefault(recv, []).append(a)
                elif isinstance(n, (ast.FunctionDef, ast.AsyncFunctionDef)) and n is not root:
                    # closure: the inner function's name depends on its free reads
                    self.direct.setdefault(n.name, set()).update(A.names_loaded(n) - {n.name})

    def _assign(self, tgt, value):
        # tuple unpacking with tuple value: pair element-wise
        if isinstance(tgt, (ast.Tuple, ast.List)) and isinstance(value, (ast.Tuple, ast.List)) and len(tgt.elts) == len(value.elts):
            for t, v in zip(tgt.elts, value.elts):
                self._assign(t, v)
            return
        if isinstance(tgt, ast.Subscript):
            base = A.assigned_names(tgt)
            for b in base:
                b2 = ".".join(b.split(".")[:2]) if b.startswith("self.") else b.split(".")[0]
                self.direct.setdefault(b2, set()).update((A.names_loaded(value) | A.names_loaded(tgt.slice)) - {b2})
                self.defs.setdefault(b2, []).append(value)
            return
        self._add(tgt, value)

    def _assign_iter(self, tgt, it):
        self._add(tgt, it)

    # ------------------------------------------------------------------
    def closure(self):
        if self._closure is None:
            clo = {k: set(v) for k, v in self.direct.items()}
            changed = True
            while changed:
                changed = False
                for k, v in clo.items():
                    add = set()
                    for x in v:
                        add |= clo.get(x, set())
                    if not add <= v:
                        v |= add
                        changed = True
            self._closure = clo
        return self._closure

    def roots_of(self, expr) -> set[str]:
        """All names the expression depends on, transitively (including itself names)."""
        clo = self.closure()
        out = set()
        for nm in A.names_loaded(expr) if not isinstance(expr, str) else {expr}:
            out.add(nm)
            out |= clo.get(nm, set())
        return out

    def depends_on(self, expr, root: str) -> bool:
        return root in self.roots_of(expr)
