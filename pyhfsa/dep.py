"""Intra-procedural dependence (DEP): which roots does a value depend on.

Flow-insensitive over-approximation inside one function: a local name
depends on everything any of its definitions reads.  Roots are parameter
names, ``self.attr`` chains and free/global names.  Mutating method calls
(`x.append(y)`, `x.update(y)`, `x += y`, `x[k] = y`) make ``x`` depend on ``y``.
"""

from __future__ import annotations

import ast

from . import astutil as A

MUTATORS = {
    "append", "extend", "insert", "update", "add", "setdefault", "__setitem__",
}


class Deps:
    def __init__(self, fn_node, *, into_defs=True):
        self.fn = fn_node
        self.direct: dict[str, set[str]] = {}
        self.defs: dict[str, list[ast.AST]] = {}  # name -> defining value exprs
        self._collect(fn_node, into_defs)
        self._closure = None

    def _add(self, tgt, value_node, extra=()):
        names = set(A.names_loaded(value_node)) if value_node is not None else set()
        names |= set(extra)
        for nm in A.assigned_names(tgt) if not isinstance(tgt, str) else [tgt]:
            self.direct.setdefault(nm, set()).update(names - {nm})
            if value_node is not None:
                self.defs.setdefault(nm, []).append(value_node)

    def _collect(self, root, into_defs):
        body = root.body if hasattr(root, "body") and isinstance(root.body, list) else [root]
        for st in body:
            for n in A.walk_ordered(st, into_defs=into_defs):
                if isinstance(n, ast.Assign):
                    for t in n.targets:
                        self._assign(t, n.value)
                elif isinstance(n, ast.AnnAssign) and n.value is not None:
                    self._assign(n.target, n.value)
                elif isinstance(n, ast.AugAssign):
                    self._add(n.target, n.value)
                elif isinstance(n, (ast.For, ast.AsyncFor)):
                    self._assign_iter(n.target, n.iter)
                elif isinstance(n, ast.comprehension):
                    self._assign_iter(n.target, n.iter)
                elif isinstance(n, (ast.With, ast.AsyncWith)):
                    for it in n.items:
                        if it.optional_vars is not None:
                            self._add(it.optional_vars, it.context_expr)
                elif isinstance(n, ast.NamedExpr):
                    self._add(n.target, n.value)
                elif isinstance(n, ast.Call) and isinstance(n.func, ast.Attribute):
                    if n.func.attr in MUTATORS:
                        recv = A.dotted(n.func.value)
                        if recv:
                            recv = ".".join(recv.split(".")[:2]) if recv.startswith("self.") else recv.split(".")[0]
                            for a in list(n.args) + [k.value for k in n.keywords]:
                                self.direct.setdefault(recv, set()).update(A.names_loaded(a) - {recv})
                                self.defs.setdefault(recv, []).append(a)
                elif isinstance(n, (ast.FunctionDef, ast.AsyncFunctionDef)) and n is not root:
                    # closure: the inner function's name depends on its free reads
                    self.direct.setdefault(n.name, set()).update(A.names_loaded(n) - {n.name})

    def _assign(self, tgt, value):
        # tuple unpacking with tuple value: pair element-wise
        if isinstance(tgt, (ast.Tuple, ast.List)) and isinstance(value, (ast.Tuple, ast.List)) and len(tgt.elts) == len(value.elts):
            for t, v in zip(tgt.elts, value.elts):
                self._assign(t, v)
            return
        if isinstance(tgt, ast.Subscript):
            base = A.assigned_names(tgt)
            for b in base:
                b2 = ".".join(b.split(".")[:2]) if b.startswith("self.") else b.split(".")[0]
                self.direct.setdefault(b2, set()).update((A.names_loaded(value) | A.names_loaded(tgt.slice)) - {b2})
                self.defs.setdefault(b2, []).append(value)
            return
        self._add(tgt, value)

    def _assign_iter(self, tgt, it):
        self._add(tgt, it)

    # ------------------------------------------------------------------
    def closure(self):
        if self._closure is None:
            clo = {k: set(v) for k, v in self.direct.items()}
            changed = True
            while changed:
                changed = False
                for k, v in clo.items():
                    add = set()
                    for x in v:
                        add |= clo.get(x, set())
                    if not add <= v:
                        v |= add
                        changed = True
            self._closure = clo
        return self._closure

    def roots_of(self, expr) -> set[str]:
        """All names the expression depends on, transitively (including itself names)."""
        clo = self.closure()
        out = set()
        for nm in A.names_loaded(expr) if not isinstance(expr, str) else {expr}:
            out.add(nm)
            out |= clo.get(nm, set())
        return out

    def depends_on(self, expr, root: str) -> bool:
        return root in self.roots_of(expr)


def depends_on_call(deps: "Deps", expr, callee_name: str) -> bool:
    """expr depends (transitively, through local definitions) on a value produced by a call whose callee's last
    name component is ``callee_name``."""
    def has(e):
        return any((A.call_name(c) or "").split(".")[-1] == callee_name for c in A.calls_in(e))
    if has(expr):
        return True
    for nm in deps.roots_of(expr):
        for d in deps.defs.get(nm, []):
            if has(d):
                return True
    return False


# ----------------------------------------------------------------------
class FlowDeps:
    """Flow-sensitive variant: an environment name -> set(roots) is pushed through the
    statements in order (strong update on plain-name assignment, union at joins, loops
    iterated to a fixpoint).  ``env_before[id(stmt)]`` is the environment in force just
    before ``stmt`` executes; ``roots(expr, stmt)`` evaluates an expression there.

    Roots are parameter names, free names and ``self.attr`` chains.  A name read before any
    assignment is its own root.
    """

    def __init__(self, fn_node):
        self.fn = fn_node
        self.env_before: dict[int, dict] = {}
        self.stmt_of: dict[int, ast.stmt] = {}
        env = {}
        if hasattr(fn_node, "args"):
            for p in A.params_of(fn_node):
                p = p.lstrip("*")
                env[p] = {p}
        body = fn_node.body if isinstance(getattr(fn_node, "body", None), list) else [fn_node]
        self.final = self._block(body, env)
        for st in ast.walk(fn_node):
            if isinstance(st, ast.stmt):
                for n in ast.walk(st):
                    self.stmt_of.setdefault(id(n), st)
        # innermost statement wins: recompute by descending
        self._index(fn_node)

    def _index(self, root):
        self.comp_bind: dict[int, dict] = {}

        def rec(node, cur, binds):
            for c in ast.iter_child_nodes(node):
                nxt = c if isinstance(c, ast.stmt) else cur
                self.stmt_of[id(c)] = nxt
                b2 = binds
                if isinstance(c, (ast.ListComp, ast.SetComp, ast.DictComp, ast.GeneratorExp)):
                    b2 = dict(binds)
                    for g in c.generators:
                        for nm in A.assigned_names(g.target):
                            b2[nm] = g.iter
                if b2:
                    self.comp_bind[id(c)] = b2
                rec(c, nxt, b2)
        rec(root, None, {})

    # -- evaluation ------------------------------------------------------
    def _roots(self, expr, env):
        out = set()
        if expr is None:
            return out
        bound = set()
        for n in ast.walk(expr):
            if isinstance(n, ast.comprehension):
                for nm in A.assigned_names(n.target):
                    bound.add(nm)
        for nm in A.names_loaded(expr):
            if nm in bound:
                # comprehension variable: depends on its iterable (already walked)
                continue
            out |= env.get(nm, {nm})
            out.add(nm) if nm not in env else None
        return out

    def roots(self, expr, at=None):
        st = at if at is not None else self.stmt_of.get(id(expr))
        env = self.env_before.get(id(st), self.final) if st is not None else self.final
        binds = self.comp_bind.get(id(expr))
        if binds:
            env = dict(env)
            for _ in range(3):  # nested generators may refer to each other
                for nm, it in binds.items():
                    env[nm] = self._roots(it, env)
        return self._roots(expr, env)

    def depends_on(self, expr, root, at=None):
        return root in self.roots(expr, at)

    # -- transfer --------------------------------------------------------
    def _join(self, a, b):
        out = {}
        for k in set(a) | set(b):
            out[k] = set(a.get(k, {k})) | set(b.get(k, {k}))
        return out

    def _assign(self, tgt, val_roots, env, value=None):
        if isinstance(tgt, ast.Name):
            env[tgt.id] = set(val_roots)
        elif isinstance(tgt, (ast.Tuple, ast.List)):
            if isinstance(value, (ast.Tuple, ast.List)) and len(value.elts) == len(tgt.elts):
                for t, v in zip(tgt.elts, value.elts):
                    self._assign(t, self._roots(v, env), env, v)
            else:
                for t in tgt.elts:
                    self._assign(t, val_roots, env)
        elif isinstance(tgt, ast.Starred):
            self._assign(tgt.value, val_roots, env)
        elif isinstance(tgt, ast.Attribute):
            d = A.dotted(tgt)
            if d:
                key = ".".join(d.split(".")[:2]) if d.startswith("self.") else d.split(".")[0]
                if d.startswith("self.") and d.count(".") == 1:
                    env[key] = set(val_roots)
                else:
                    env[key] = env.get(key, {key}) | set(val_roots)
        elif isinstance(tgt, ast.Subscript):
            d = A.dotted(tgt.value)
            if d:
                key = ".".join(d.split(".")[:2]) if d.startswith("self.") else d.split(".")[0]
                env[key] = env.get(key, {key}) | set(val_roots) | self._roots(tgt.slice, env)

    def _effects(self, expr, env):
        """Mutating method calls inside an expression statement / value."""
        for n in ast.walk(expr):
            if isinstance(n, ast.Call) and isinstance(n.func, ast.Attribute) and n.func.attr in MUTATORS:
                d = A.dotted(n.func.value)
                if d:
                    key = ".".join(d.split(".")[:2]) if d.startswith("self.") else d.split(".")[0]
                    add = set()
                    for a in list(n.args) + [k.value for k in n.keywords]:
                        add |= self._roots(a, env)
                    env[key] = env.get(key, {key}) | add
            elif isinstance(n, ast.NamedExpr):
                self._assign(n.target, self._roots(n.value, env), env)

    def _block(self, stmts, env):
        for st in stmts:
            env = self._stmt(st, env)
        return env

    def _augassign(self, st, env):
        r = self._roots(st.value, env) | self._roots(st.target, env)
        self._assign(st.target, r, env)

    def _stmt(self, st, env):
        self.env_before[id(st)] = env
        env = dict(env)
        if isinstance(st, ast.Assign):
            self._effects(st.value, env)
            r = self._roots(st.value, env)
            for t in st.targets:
                self._assign(t, r, env, st.value)
        elif isinstance(st, ast.AnnAssign):
            if st.value is not None:
                self._assign(st.target, self._roots(st.value, env), env, st.value)
        elif isinstance(st, ast.AugAssign):
            self._augassign(st, env)
        elif isinstance(st, ast.Expr):
            self._effects(st.value, env)
        elif isinstance(st, ast.If):
            self._effects(st.test, env)
            a = self._block(st.body, dict(env))
            b = self._block(st.orelse, dict(env))
            env = self._join(a, b)
        elif isinstance(st, (ast.For, ast.AsyncFor)):
            for _ in range(3):
                e2 = dict(env)
                self._assign(st.target, self._roots(st.iter, e2), e2)
                e2 = self._block(st.body, e2)
                new = self._join(env, e2)
                if new == env:
                    break
                env = new
            e2 = dict(env)
            self._assign(st.target, self._roots(st.iter, e2), e2)
            self._block(st.body, e2)  # final pass records env_before with the fixpoint
            env = self._block(st.orelse, env)
        elif isinstance(st, ast.While):
            for _ in range(3):
                e2 = self._block(st.body, dict(env))
                new = self._join(env, e2)
                if new == env:
                    break
                env = new
            self._block(st.body, dict(env))
            env = self._block(st.orelse, env)
        elif isinstance(st, (ast.With, ast.AsyncWith)):
            for it in st.items:
                if it.optional_vars is not None:
                    self._assign(it.optional_vars, self._roots(it.context_expr, env), env)
            env = self._block(st.body, env)
        elif isinstance(st, ast.Try):
            a = self._block(st.body, dict(env))
            a = self._block(st.orelse, a)
            outs = [a]
            for h in st.handlers:
                outs.append(self._block(h.body, self._join(env, a)))
            e = outs[0]
            for o in outs[1:]:
                e = self._join(e, o)
            env = self._block(st.finalbody, e)
        elif isinstance(st, (ast.FunctionDef, ast.AsyncFunctionDef)):
            free = A.names_loaded(st) - {st.name}
            r = set()
            for nm in free:
                r |= env.get(nm, {nm})
            env[st.name] = r
        elif isinstance(st, ast.Return):
            pass
        elif isinstance(st, ast.Delete):
            pass
        return env
