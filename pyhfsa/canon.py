"""Canonical form of function bodies, applied to every module right after parsing.

The structural rules match shapes (`x = a if c else b`, `self.f(shape(y))`, `sorted(set(...))`, a comprehension over the
parameter sets).  A maintainer may write the same computation with a temporary, an explicit loop or an if/else statement
instead; the three rewrites below undo exactly those spellings, each only under conditions that make it an equivalence of
Python programs, so a verdict on the canonical form is a verdict on the program as written:

  LOOP   `L = []` immediately followed by `for t in it: [if c: ...] L.append(e)` (nothing else in the loop, no else) becomes
         `L = [e for t in it if c]` -- when L is a plain local, is not read in e / c / it, and the loop variables are not read
         anywhere outside the loop (a comprehension does not leak them), and the pair is not inside a try / with block
         (where a half-filled list could be observed after an exception).
  IFEXP  `if c: x = a` / `else: x = b` (one plain-name assignment in each arm, same name) becomes `x = a if c else b`.
  CONST  a module-level name bound ONCE to a literal (and never assigned from outside the module) is that literal where the
         module reads it.
  TEMP   `t = E` immediately followed by a statement that reads `t` exactly once becomes that statement with E in place of
         `t` -- when `t` is a plain local assigned once and read once in the whole function (nested functions included), the
         read is not inside a lambda / comprehension / nested def / loop condition, and no call, subscript or await completes
         in the second statement before the read: only plain names, constants and the method lookup `name.attr` of a call
         enclosing the read may be evaluated earlier (an expression cannot rebind a local name; that it does not replace a
         METHOD of an object between the two statements is the one assumption made).

Positions of the original nodes are kept (a moved expression takes the position of the name it replaces), so reports still
name the line the construct was written on and rules that order events by position see the order of evaluation.
"""

from __future__ import annotations

import ast

_SCOPES = (ast.FunctionDef, ast.AsyncFunctionDef, ast.Lambda, ast.ClassDef, ast.ListComp, ast.SetComp, ast.DictComp, ast.GeneratorExp)


def _names(node, ctx=None):
    return [n for n in ast.walk(node) if isinstance(n, ast.Name) and (ctx is None or isinstance(n.ctx, ctx))]


class _FunctionFacts:
    def __init__(self, fn):
        self.loads, self.stores = {}, {}
        self.declared = set()
        self.params = {a.arg for a in fn.args.posonlyargs + fn.args.args + fn.args.kwonlyargs}
        for a in (fn.args.vararg, fn.args.kwarg):
            if a is not None:
                self.params.add(a.arg)
        for n in ast.walk(fn):
            if isinstance(n, (ast.Global, ast.Nonlocal)):
                self.declared |= set(n.names)
            elif isinstance(n, ast.Name):
                d = self.loads if isinstance(n.ctx, ast.Load) else self.stores
                d[n.id] = d.get(n.id, 0) + 1
            elif isinstance(n, (ast.FunctionDef, ast.AsyncFunctionDef, ast.ClassDef)) and n is not fn:
                self.stores[n.name] = self.stores.get(n.name, 0) + 1
            elif isinstance(n, ast.arg) and n.arg not in self.params:
                self.stores[n.arg] = self.stores.get(n.arg, 0) + 2  # a parameter of a nested function / lambda: never touch the name
            elif isinstance(n, ast.ExceptHandler) and n.name:
                self.stores[n.name] = self.stores.get(n.name, 0) + 1
            elif isinstance(n, (ast.Import, ast.ImportFrom)):
                for al in n.names:
                    nm = (al.asname or al.name).split(".")[0]
                    self.stores[nm] = self.stores.get(nm, 0) + 1

    def plain_local(self, name):
        return name not in self.params and name not in self.declared


def _read_site_ok(stmt, name):
    """(parent chain ok, position) of the single read of `name` in the part of `stmt` that is evaluated ONCE, first."""
    if isinstance(stmt, (ast.Assign, ast.AnnAssign, ast.AugAssign, ast.Return, ast.Expr)):
        roots = [stmt.value] if stmt.value is not None else []
        if isinstance(stmt, ast.AugAssign):
            return None  # target is read before the value
        if isinstance(stmt, (ast.Assign, ast.AnnAssign)):
            # targets are evaluated after the value; a read inside a target (subscript index) comes after the whole value
            tg = stmt.targets if isinstance(stmt, ast.Assign) else [stmt.target]
            if any(n.id == name for t in tg for n in _names(t, ast.Load)):
                return None
    elif isinstance(stmt, ast.If):
        roots = [stmt.test]
    elif isinstance(stmt, ast.For):
        roots = [stmt.iter]
    else:
        return None
    found = []

    def walk(node, inside_scope):
        if isinstance(node, ast.Name) and isinstance(node.ctx, ast.Load) and node.id == name:
            found.append((node, inside_scope))
        for c in ast.iter_child_nodes(node):
            walk(c, inside_scope or isinstance(node, _SCOPES) or isinstance(node, (ast.BoolOp, ast.IfExp)))

    for r in roots:
        walk(r, False)
    if len(found) != 1 or found[0][1]:
        return None
    use = found[0][0]
    # Before the read nothing may be evaluated that the moved expression could influence or be influenced by: plain names
    # and constants are fine (an expression cannot rebind a local), and so is the method lookup `name.attr` of a call that
    # ENCLOSES the read; any other attribute load, subscript, operator or completed call before the read keeps the temporary.
    enclosing_funcs = set()
    for r in roots:
        for n in ast.walk(r):
            if isinstance(n, ast.Call) and isinstance(n.func, ast.Attribute) and isinstance(n.func.value, ast.Name):
                if (n.lineno, n.col_offset) <= (use.lineno, use.col_offset) and (getattr(n, "end_lineno", 0), getattr(n, "end_col_offset", 0)) >= (use.lineno, use.col_offset) and any(x is use for a in list(n.args) + [k.value for k in n.keywords] for x in ast.walk(a)):
                    enclosing_funcs.add(id(n.func))
    for r in roots:
        for n in ast.walk(r):
            if isinstance(n, (ast.Call, ast.Subscript, ast.Await, ast.Yield, ast.YieldFrom, ast.NamedExpr, ast.BinOp, ast.Compare, ast.UnaryOp, ast.Attribute, ast.JoinedStr, ast.Starred)):
                if id(n) in enclosing_funcs:
                    continue
                end = (getattr(n, "end_lineno", None), getattr(n, "end_col_offset", None))
                if end[0] is None:
                    return None
                if end <= (use.lineno, use.col_offset):
                    return None
    return use


class _Replace(ast.NodeTransformer):
    def __init__(self, target, value):
        self.target, self.value = target, value

    def visit_Name(self, node):
        return self.value if node is self.target else node


def _append_loop(first, loop, facts, rest_of_function_loads):
    """`L = []` + `for ...: [if ...:] L.append(e)`  ->  the ListComp, or None"""
    if not (isinstance(first, ast.Assign) and len(first.targets) == 1 and isinstance(first.targets[0], ast.Name) and isinstance(first.value, ast.List) and not first.value.elts):
        return None
    L = first.targets[0].id
    if not (isinstance(loop, ast.For) and not loop.orelse and len(loop.body) == 1) or not facts.plain_local(L):
        return None
    ifs = []
    st = loop.body[0]
    while isinstance(st, ast.If) and not st.orelse and len(st.body) == 1:
        ifs.append(st.test)
        st = st.body[0]
    if not (isinstance(st, ast.Expr) and isinstance(st.value, ast.Call) and isinstance(st.value.func, ast.Attribute) and st.value.func.attr == "append"
            and isinstance(st.value.func.value, ast.Name) and st.value.func.value.id == L and len(st.value.args) == 1 and not st.value.keywords and not isinstance(st.value.args[0], ast.Starred)):
        return None
    elt = st.value.args[0]
    parts = [elt, loop.iter] + ifs
    if any(n.id == L for p in parts for n in _names(p)):
        return None
    if any(isinstance(n, (ast.Yield, ast.YieldFrom, ast.Await, ast.NamedExpr, ast.Lambda)) for p in parts for n in ast.walk(p)):
        return None  # a lambda in the element closes over the loop variable: per-scope in a comprehension as well, but keep out
    loopvars = {n.id for n in _names(loop.target)}
    if not all(isinstance(n, (ast.Name, ast.Tuple, ast.List)) for n in ast.walk(loop.target) if not isinstance(n, ast.expr_context)):
        return None
    inside = sum(1 for p in [loop] for n in _names(p) if n.id in loopvars)
    total = sum(facts.loads.get(v, 0) + facts.stores.get(v, 0) for v in loopvars)
    if inside != total:
        return None  # the loop variable is used elsewhere in the function
    comp = ast.ListComp(elt=elt, generators=[ast.comprehension(target=loop.target, iter=loop.iter, ifs=ifs, is_async=0)])
    ast.copy_location(comp, loop)
    new = ast.Assign(targets=first.targets, value=comp, type_comment=None)
    ast.copy_location(new, first)
    new.end_lineno, new.end_col_offset = getattr(loop, "end_lineno", None), getattr(loop, "end_col_offset", None)
    return new


def _ifexp(st):
    if not (isinstance(st, ast.If) and len(st.body) == 1 and len(st.orelse) == 1):
        return None
    a, b = st.body[0], st.orelse[0]
    if not (isinstance(a, ast.Assign) and isinstance(b, ast.Assign) and len(a.targets) == 1 and len(b.targets) == 1 and isinstance(a.targets[0], ast.Name) and isinstance(b.targets[0], ast.Name) and a.targets[0].id == b.targets[0].id):
        return None
    if any(isinstance(n, (ast.Yield, ast.YieldFrom, ast.Await, ast.NamedExpr)) for p in (st.test, a.value, b.value) for n in ast.walk(p)):
        return None
    v = ast.IfExp(test=st.test, body=a.value, orelse=b.value)
    ast.copy_location(v, st)
    new = ast.Assign(targets=a.targets, value=v, type_comment=None)
    ast.copy_location(new, st)
    return new


def _canon_function(fn):
    changed_any = 0
    for _round in range(500):
        facts = _FunctionFacts(fn)
        changed = False

        def blocks(node, guarded=False):
            guarded = guarded or isinstance(node, (ast.Try, ast.With, ast.AsyncWith)) or type(node).__name__ == "TryStar"
            for fld in ("body", "orelse", "finalbody"):
                b = getattr(node, fld, None)
                if isinstance(b, list) and b and isinstance(b[0], ast.stmt):
                    yield guarded, fld, b
            for c in ast.iter_child_nodes(node):
                if isinstance(c, (ast.FunctionDef, ast.AsyncFunctionDef, ast.ClassDef, ast.Lambda)):
                    continue  # nested functions are canonicalised on their own
                if isinstance(c, (ast.ExceptHandler, ast.stmt)) or type(c).__name__ == "match_case":
                    yield from blocks(c, guarded)

        for guarded, fld, body in list(blocks(fn)):
            i = 0
            while i < len(body):
                st = body[i]
                nxt = body[i + 1] if i + 1 < len(body) else None
                # LOOP
                if nxt is not None and not guarded:  # under try / with a half-filled list could be observed after an exception
                    new = _append_loop(st, nxt, facts, None)
                    if new is not None:
                        body[i:i + 2] = [new]
                        changed = True
                        break
                # IFEXP
                new = _ifexp(st)
                if new is not None and new.targets[0].id not in facts.declared:
                    body[i] = new
                    changed = True
                    break
                # TEMP
                if nxt is not None and isinstance(st, ast.Assign) and len(st.targets) == 1 and isinstance(st.targets[0], ast.Name):
                    t = st.targets[0].id
                    if facts.plain_local(t) and facts.stores.get(t, 0) == 1 and facts.loads.get(t, 0) == 1 and not any(isinstance(n, (ast.Yield, ast.YieldFrom, ast.Await, ast.NamedExpr)) for n in ast.walk(st.value)):
                        use = _read_site_ok(nxt, t)
                        if use is not None:
                            for n_ in ast.walk(st.value):  # the moved expression now sits where the name was read
                                if hasattr(n_, "lineno"):
                                    n_.lineno, n_.col_offset, n_.end_lineno, n_.end_col_offset = use.lineno, use.col_offset, use.lineno, use.col_offset
                            body[i + 1] = _Replace(use, st.value).visit(nxt)
                            del body[i]
                            changed = True
                            break
                i += 1
            if changed:
                break
        if not changed:
            break
        changed_any += 1
    return changed_any


def _inline_module_constants(tree, stored_attrs):
    """CONST: a module-level `NAME = <literal>` (string, number, bool, None; also `A, B = 0, 1`) that is bound exactly once in the
    module, never declared global in a function, and never assigned from outside as `<module>.NAME = ...` anywhere in the
    package is that literal wherever the module reads NAME -- except inside functions / classes / comprehensions that bind
    the same name themselves.  `if join == _JOIN_NONE` is then `if join == 'none'` for every rule."""
    consts, counts = {}, {}
    for st in tree.body:
        pairs = []
        if isinstance(st, ast.Assign) and len(st.targets) == 1:
            t, v = st.targets[0], st.value
            if isinstance(t, ast.Name):
                pairs = [(t, v)]
            elif isinstance(t, (ast.Tuple, ast.List)) and isinstance(v, (ast.Tuple, ast.List)) and len(t.elts) == len(v.elts) and all(isinstance(x, ast.Name) for x in t.elts):
                pairs = list(zip(t.elts, v.elts))
        elif isinstance(st, ast.AnnAssign) and st.value is not None and isinstance(st.target, ast.Name):
            pairs = [(st.target, st.value)]
        for t, v in pairs:
            if isinstance(v, ast.Constant) and (v.value is None or isinstance(v.value, (str, int, float, bool))) and not t.id.startswith("__"):
                consts[t.id] = v
    if not consts:
        return 0
    for n in ast.walk(tree):
        if isinstance(n, ast.Name) and isinstance(n.ctx, (ast.Store, ast.Del)):
            counts[n.id] = counts.get(n.id, 0) + 1
        elif isinstance(n, (ast.Global, ast.Nonlocal)):
            for nm in n.names:
                counts[nm] = counts.get(nm, 0) + 2
        elif isinstance(n, ast.arg):
            counts[n.arg] = counts.get(n.arg, 0) + 2
        elif isinstance(n, (ast.FunctionDef, ast.AsyncFunctionDef, ast.ClassDef)):
            counts[n.name] = counts.get(n.name, 0) + 2
        elif isinstance(n, ast.alias):
            nm = (n.asname or n.name).split(".")[0]
            counts[nm] = counts.get(nm, 0) + 2
    # bound once in the whole module (so no function, class or comprehension binds the name either) and not poked from outside
    consts = {k: v for k, v in consts.items() if counts.get(k, 0) == 1 and k not in stored_attrs}
    if not consts:
        return 0
    exported = set()
    for st in tree.body:  # names listed in __all__ stay names: they are the module's interface
        if isinstance(st, ast.Assign) and any(isinstance(t, ast.Name) and t.id == "__all__" for t in st.targets) and isinstance(st.value, (ast.List, ast.Tuple)):
            exported |= {e.value for e in st.value.elts if isinstance(e, ast.Constant) and isinstance(e.value, str)}
    consts = {k: v for k, v in consts.items() if k not in exported}

    class _Sub(ast.NodeTransformer):
        def __init__(self):
            self.n = 0

        def visit_Name(self, node):
            if isinstance(node.ctx, ast.Load) and node.id in consts:
                self.n += 1
                return ast.copy_location(ast.Constant(value=consts[node.id].value), node)
            return node

    t = _Sub()
    t.visit(tree)
    return t.n


def canonicalise(tree, stored_attrs=frozenset()):
    """in place; returns the number of rewrites"""
    n = _inline_module_constants(tree, stored_attrs)
    for node in ast.walk(tree):
        if isinstance(node, (ast.FunctionDef, ast.AsyncFunctionDef)):
            n += _canon_function(node)
    return n
