"""Shared symbolic model of the optimiser shims (used by C05 and C13)."""

from __future__ import annotations

import ast

from . import astutil as A
from .alg import Closure, Interp, Obj, Poly, PyFunc, Record, Undecided, fn, to_poly

OPT = "src/pyhf/optimize/"
SHIM_FILES = {"numpy": OPT + "opt_numpy.py", "jax": OPT + "opt_jax.py", "pytorch": OPT + "opt_pytorch.py", "tensorflow": OPT + "opt_tflow.py"}


def shim_table(repo):
    """backend name -> module relpath, from the `if tensorlib.name == '<x>': from <mod> import wrap_objective` chain."""
    f = repo.func(OPT + "common.py", "_get_tensor_shim")
    out = {}
    for n in ast.walk(f.node):
        if isinstance(n, ast.If) and isinstance(n.test, ast.Compare) and "name" in A.unparse(n.test.left):
            key = A.const_value(n.test.comparators[0])
            for st in n.body:
                if isinstance(st, ast.ImportFrom) and any(a.name == "wrap_objective" for a in st.names):
                    out[key] = "src/" + st.module.replace(".", "/") + ".py"
    if out:
        return out
    # another spelling (a name -> module table and importlib): ask the function which module's wrap_objective it hands out
    from .alg import RaisedInFragment
    for key in SHIM_FILES:
        try:
            ext = {"get_backend": lambda a, k, key=key: (Obj("tensorlib", {"name": key, "precision": "64b"}), Obj("optimizer")),
                   "import_module": lambda a, k: Obj("module", {"wrap_objective": Obj("shim:" + str(a[0]))})}
            r = Interp({"importlib": Obj("importlib"), "pyhf": Obj("pyhf")}, {}, {}, externals=ext).call_function(f.node, [], {})
        except (Undecided, RaisedInFragment, KeyError, TypeError, AttributeError):
            continue
        if isinstance(r, Obj) and r.name.startswith("shim:"):
            out[key] = "src/" + r.name[5:].replace(".", "/") + ".py"
    return out


class ShimRun:
    """Result of interpreting one arm of one shim's `func(pars)`."""

    def __init__(self):
        self.ret = None
        self.grad_calls = []  # (kind, y, x)
        self.watch = []
        self.events = []  # ordered: ('requires_grad', target) / ('stitch', arg) / ('objective', args) / ('watch', x) / ('grad', y, x)
        self.objective_args = []


def run_shim(repo, relpath, do_grad):
    """Interpret wrap_objective(objective, data, pdf, stitch_pars, do_grad, jit_pieces) and then the returned func(PARS)."""
    mod = repo.module(relpath)
    w = repo.func(relpath, "wrap_objective")
    run = ShimRun()

    def objective(args, kw):
        run.events.append(("objective", [to_poly(a) if not isinstance(a, Obj) else Poly.atom(a.name) for a in args]))
        run.objective_args.append(args)
        return Poly.atom("OBJ<" + ";".join(str(to_poly(a)) if not isinstance(a, Obj) else a.name for a in args) + ">")

    def stitch(args, kw):
        run.events.append(("stitch", to_poly(args[0])))
        return Poly.atom(f"STITCH<{to_poly(args[0])}>")

    def _two(args, kw, n0, n1):
        # the library's own parameter names: torch.autograd.grad(outputs, inputs), tape.gradient(target, sources)
        a0 = args[0] if len(args) > 0 else kw.get(n0)
        a1 = args[1] if len(args) > 1 else kw.get(n1)
        if a0 is None or a1 is None:
            raise Undecided(f"gradient call without ({n0}, {n1})")
        return a0, a1

    def grad(args, kw):
        y_, x_ = _two(args, kw, "outputs", "inputs")
        run.events.append(("grad", to_poly(y_), to_poly(x_)))
        run.grad_calls.append(("grad", to_poly(y_), to_poly(x_)))
        return [Poly.atom(f"GRAD<{to_poly(y_)};{to_poly(x_)}>")]

    def gradient(recv, args, kw):
        y_, x_ = _two(args, kw, "target", "sources")
        run.events.append(("grad", to_poly(y_), to_poly(x_)))
        run.grad_calls.append(("gradient", to_poly(y_), to_poly(x_)))
        return Poly.atom(f"GRAD<{to_poly(y_)};{to_poly(x_)}>")

    def watch(recv, args, kw):
        run.events.append(("watch", to_poly(args[0])))
        run.watch.append(to_poly(args[0]))
        return None

    def backward(recv, args, kw):
        run.events.append(("backward", to_poly(recv)))
        return None

    jit_calls = []

    def jitted(name):
        def f(args, kw):
            jit_calls.append((name, args))
            return Poly.atom(f"{name}<...>")
        return f

    ext = {
        "grad": grad, ".gradient": gradient, ".watch": watch, ".backward": backward, "GradientTape": lambda a, k: Obj("tape"),
        "_jitted_objective_and_grad": jitted("_jitted_objective_and_grad"), "_jitted_objective": jitted("_jitted_objective"),
    }
    env = {
        "objective": PyFunc(objective, "objective"), "data": Obj("data"), "pdf": Obj("pdf"), "stitch_pars": PyFunc(stitch, "stitch_pars"),
        "do_grad": do_grad,
        "jit_pieces": Record({"fixed_values": Obj("FIXED_VALUES"), "fixed_idx": [Poly.const(1)], "variable_idx": [Poly.const(0), Poly.const(2)], "do_stitch": True}),
    }
    it = Interp(env, {}, {}, externals=ext)
    clo = it.run(A.strip_docstring(w.node.body))
    if not isinstance(clo, Closure):
        raise Undecided("wrap_objective does not return a local closure")
    it2 = Interp(dict(it.env), {}, {}, externals=ext)
    it2.attr_sets = run.events  # attribute stores are traced in the same ordered event list
    it2.env["pars"] = Poly.atom("PARS")
    run.ret = it2.call_function(clo.node, [Poly.atom("PARS")], {})
    run.jit_calls = jit_calls
    run.closure = clo.node
    return run


def run_shim_history(repo, relpath, do_grad):
    """The function returned by wrap_objective called TWICE with ONE parameter buffer whose content is changed in place
    between the calls (what a gradient-descent loop `x -= step * grad` does; tensorlib.astensor / .detach() / .numpy()
    do not copy a buffer of the backend's own dtype).  Returns, per call, the contents the objective / the jitted function
    were evaluated at and a description of the returned value."""
    w = repo.func(relpath, "wrap_objective")
    calls = []
    cur = {"log": None}

    def buf(content):
        return Obj("BUF", {"content": list(content)})

    def snap(x):
        if isinstance(x, Obj) and "content" in x.attrs:
            return ";".join(str(to_poly(v)) for v in x.attrs["content"])
        if isinstance(x, Obj):
            return x.name
        return str(to_poly(x))

    def objective(args, kw):
        cur["log"]["objective"].append(snap(args[0]))
        return Poly.atom("OBJ<" + snap(args[0]) + ">")

    def stitch(args, kw):
        return Poly.atom("STITCH<" + snap(args[0]) + ">")

    def grad(args, kw):
        y_ = args[0] if args else kw.get("outputs", kw.get("target"))
        if y_ is None:
            raise Undecided("gradient call without its outputs")
        return [Poly.atom(f"GRAD<{snap(y_)}>")]

    def jitted(name):
        def f(args, kw):
            cur["log"]["objective"].append(snap(args[0]))
            return (Poly.atom(f"{name}<{snap(args[0])}>"), Poly.atom(f"{name}_GRAD<{snap(args[0])}>")) if name.endswith("grad") else Poly.atom(f"{name}<{snap(args[0])}>")
        return f

    def same_storage(recv, a, k):
        if isinstance(recv, Obj) and "content" in recv.attrs:
            return recv
        from .alg import NotHandled
        raise NotHandled()

    def new_storage(recv, a, k):
        if isinstance(recv, Obj) and "content" in recv.attrs:
            return buf(recv.attrs["content"])
        from .alg import NotHandled
        raise NotHandled()

    def equal(a, k):
        x, y = a[0], a[1]
        if isinstance(x, Obj) and isinstance(y, Obj) and "content" in x.attrs and "content" in y.attrs:
            return [str(to_poly(v)) for v in x.attrs["content"]] == [str(to_poly(v)) for v in y.attrs["content"]]
        return False

    ext = {
        "astensor": lambda a, k: a[0], "as_tensor": lambda a, k: a[0], "asarray": lambda a, k: a[0],
        "array": lambda a, k: buf(a[0].attrs["content"]) if isinstance(a[0], Obj) and "content" in a[0].attrs else a[0],
        ".detach": same_storage, ".numpy": same_storage, ".cpu": same_storage, ".clone": new_storage, ".copy": new_storage,
        "equal": equal, "array_equal": equal, "allclose": equal,
        "grad": grad, ".gradient": lambda recv, a, k: Poly.atom(f"GRAD<{snap(a[0])}>"), ".watch": lambda recv, a, k: None, ".backward": lambda recv, a, k: None,
        "GradientTape": lambda a, k: Obj("tape"),
        "_jitted_objective_and_grad": jitted("_jitted_objective_and_grad"), "_jitted_objective": jitted("_jitted_objective"),
    }
    env = {
        "objective": PyFunc(objective, "objective"), "data": Obj("data"), "pdf": Obj("pdf"), "stitch_pars": PyFunc(stitch, "stitch_pars"),
        "do_grad": do_grad,
        "jit_pieces": Record({"fixed_values": Obj("FIXED_VALUES"), "fixed_idx": [Poly.const(1)], "variable_idx": [Poly.const(0), Poly.const(2)], "do_stitch": True}),
    }
    mod_env = {}
    for name, v in repo.module(relpath).assigns.items():  # module-level containers: state shared by every wrapped objective
        if isinstance(v, ast.Dict) and not v.keys:
            mod_env[name] = {}
        elif isinstance(v, (ast.List,)) and not v.elts:
            mod_env[name] = []
    it = Interp({**mod_env, **env}, {}, {}, externals=ext)
    clo = it.run(A.strip_docstring(w.node.body))
    if not isinstance(clo, Closure):
        raise Undecided("wrap_objective does not return a local closure")
    b = buf([Poly.atom("q0"), Poly.atom("q1")])
    for content in (None, [Poly.atom("r0"), Poly.atom("r1")]):
        if content is not None:
            b.attrs["content"][:] = content  # in place: every alias of the buffer sees the new point
        cur["log"] = {"objective": []}
        ret = clo.interp.call_function(clo.node, [b], {})
        flat = ret if isinstance(ret, (tuple, list)) else [ret]
        cur["log"]["returned"] = [snap(x) if not isinstance(x, (list, tuple)) else ",".join(snap(y) for y in x) for x in flat]
        calls.append(cur["log"])
    return calls


def objective_roles(repo, rel):
    """{parameter of the jitted objective: role} with role in pars / data / fixed_values / fixed_idx / variable_idx / do_stitch /
    objective / pdf -- read off the jax shim's own call site (what it passes where), so that the private function's parameter
    names and order are whatever its definition and its call sites agree on today."""
    w = repo.func(rel, "wrap_objective")
    fo = repo.func(rel, "_final_objective")
    formals = [a.arg for a in fo.node.args.posonlyargs + fo.node.args.args]
    roles = {}
    for c in A.calls_in(w.node):
        if not (isinstance(c.func, ast.Name) and c.func.id.startswith("_jitted_objective")):
            continue
        inner = next((fn_ for fn_ in ast.walk(w.node) if isinstance(fn_, (ast.FunctionDef, ast.Lambda)) and fn_ is not w.node and any(x is c for x in ast.walk(fn_))), None)
        own = [a.arg for a in inner.args.args] if inner is not None else []
        for formal, actual in list(zip(formals, c.args)) + [(k.arg, k.value) for k in c.keywords if k.arg]:
            txt = A.unparse(actual)
            if isinstance(actual, ast.Name) and actual.id in own:
                role = "pars"
            elif isinstance(actual, ast.Name) and actual.id in ("data", "objective", "pdf"):
                role = actual.id
            else:
                role = next((r_ for r_ in ("fixed_values", "fixed_idx", "variable_idx", "do_stitch") if r_ in txt), None)
            if role is not None:
                if roles.get(formal, role) != role:
                    return {}
                roles[formal] = role
    return roles if len(roles) == len(formals) and len(set(roles.values())) == len(formals) else {}
