"""ALG -- abstract interpretation of straight-line tensor-DSL code in the domain of
Laurent polynomials with exact rational coefficients over named atoms.

Values are ``Poly`` (a scalar that stands for every element of a tensor: all
DSL operations used are element-wise or explicit finite sums), python lists
of values (an *explicit* leading axis: literal lists, ``stack``), booleans
(decided comparisons) and a few sentinels.  Anything outside the fragment
raises ``Undecided`` -- never a violation.

Opaque function atoms (``pow``, ``log``, ``exp``, ``sqrt``, ``xlogy`` ...) are
structured: their arguments are Polys, so substitution and formal
differentiation see through them.
"""

from __future__ import annotations

import ast
from fractions import Fraction

from . import astutil as A


class Undecided(Exception):
    pass


# ----------------------------------------------------------------------
_ATOMS: dict[str, tuple] = {}  # canonical name -> (fn, args) for structured atoms
_SQRT_OF: dict[str, str] = {}  # plain atom X -> name of the atom sqrt<X>; canonical form writes X as sqrt<X>^2


def _mono_str(m):
    return "*".join(a if e == 1 else f"{a}^{e}" for a, e in m) or "1"


class Poly:
    __slots__ = ("t", "_h")

    def __init__(self, terms=None):
        t = {}
        if terms:
            for m, c in terms.items():
                if c != 0:
                    t[m] = Fraction(c)
        self.t = t
        self._h = None

    # -- constructors
    @staticmethod
    def const(c):
        if isinstance(c, float):
            c = Fraction(c)  # exact binary value of the float
            # prefer the short decimal the source literal denotes when it round-trips
        return Poly({(): Fraction(c)}) if c != 0 else Poly()

    @staticmethod
    def atom(name, e=1):
        return Poly({((name, e),): Fraction(1)})

    # -- queries
    def is_const(self):
        return all(m == () for m in self.t)

    def const_value(self):
        if not self.is_const():
            raise Undecided(f"not a constant: {self}")
        return self.t.get((), Fraction(0))

    def is_zero(self):
        return not self.t

    def atoms(self):
        out = set()
        for m in self.t:
            for a, _ in m:
                out.add(a)
                if a in _ATOMS:
                    for arg in _ATOMS[a][1]:
                        if isinstance(arg, Poly):
                            out |= arg.atoms()
        return out

    def single_term(self):
        return len(self.t) == 1

    # -- arithmetic
    def __add__(self, o):
        o = to_poly(o)
        t = dict(self.t)
        for m, c in o.t.items():
            t[m] = t.get(m, 0) + c
        return Poly(t)

    __radd__ = __add__

    def __neg__(self):
        return Poly({m: -c for m, c in self.t.items()})

    def __sub__(self, o):
        return self + (-to_poly(o))

    def __rsub__(self, o):
        return to_poly(o) - self

    def __mul__(self, o):
        o = to_poly(o)
        t = {}
        extra = Poly()
        for m1, c1 in self.t.items():
            for m2, c2 in o.t.items():
                d = dict(m1)
                for a, e in m2:
                    d[a] = d.get(a, 0) + e
                # sqrt(x)^2 -> x
                expand = None
                for a, e in list(d.items()):
                    if a in _ATOMS and _ATOMS[a][0] == "sqrt" and abs(e) >= 2 and a not in _SQRT_OF.values():
                        k, r = divmod(e, 2)
                        inner = _ATOMS[a][1][0]
                        d[a] = r
                        expand = (inner, k) if expand is None else expand
                        if expand[0] is not inner:
                            # two different sqrt atoms squared at once: handle sequentially
                            pass
                        break
                m = tuple(sorted((a, e) for a, e in d.items() if e != 0))
                if expand is not None:
                    extra = extra + Poly({m: c1 * c2}) * (expand[0] ** expand[1])
                else:
                    t[m] = t.get(m, 0) + c1 * c2
        return Poly(t) + extra if not extra.is_zero() else Poly(t)

    __rmul__ = __mul__

    def __pow__(self, n):
        if isinstance(n, Poly):
            n = n.const_value()
        n = Fraction(n)
        if n.denominator != 1:
            if n == Fraction(1, 2):
                return fn("sqrt", self)
            raise Undecided("non-integer power")
        n = int(n)
        if n == 0:
            return Poly.const(1)
        if n < 0:
            return self.inverse() ** (-n)
        out = Poly.const(1)
        base = self
        while n:
            if n & 1:
                out = out * base
            base = base * base
            n >>= 1
        return out

    def inverse(self):
        if self.is_zero():
            raise Undecided("division by zero")
        if self.single_term():
            (m, c), = self.t.items()
            return Poly({tuple((a, -e) for a, e in m): 1 / c})
        return fn("inv", self)

    def __truediv__(self, o):
        return self * to_poly(o).inverse()

    def __rtruediv__(self, o):
        return to_poly(o) * self.inverse()

    # -- identity
    def canon(self):
        """Rewrite every plain atom X that has a registered sqrt<X> as sqrt<X>^2 (one normal form)."""
        if not _SQRT_OF or not any(a in _SQRT_OF for m in self.t for a, _ in m):
            return self
        t = {}
        for m, c in self.t.items():
            d = {}
            for a, e in m:
                if a in _SQRT_OF:
                    a, e = _SQRT_OF[a], 2 * e
                d[a] = d.get(a, 0) + e
            m2 = tuple(sorted((a, e) for a, e in d.items() if e != 0))
            t[m2] = t.get(m2, 0) + c
        return Poly(t)

    def key(self):
        return tuple(sorted(self.canon().t.items()))

    def __eq__(self, o):
        if not isinstance(o, (Poly, int, Fraction, float)):
            return NotImplemented
        return self.key() == to_poly(o).key()

    def __hash__(self):
        return hash(self.key())

    def __str__(self):
        if not self.t:
            return "0"
        parts = []
        for m, c in sorted(self.canon().t.items()):
            ms = _mono_str(m)
            if ms == "1":
                parts.append(str(c))
            elif c == 1:
                parts.append(ms)
            elif c == -1:
                parts.append("-" + ms)
            else:
                parts.append(f"{c}*{ms}")
        return " + ".join(parts).replace("+ -", "- ")

    __repr__ = __str__

    # -- substitution / differentiation
    def subs(self, mapping):
        out = Poly()
        for m, c in self.t.items():
            term = Poly.const(c)
            for a, e in m:
                if a in mapping:
                    base = to_poly(mapping[a])
                elif a in _ATOMS:
                    f, args = _ATOMS[a]
                    base = fn(f, *[x.subs(mapping) if isinstance(x, Poly) else x for x in args])
                else:
                    base = Poly.atom(a)
                term = term * (base ** e)
            out = out + term
        return out

    def diff(self, v):
        out = Poly()
        for m, c in self.t.items():
            for i, (a, e) in enumerate(m):
                da = _datom(a, v)
                if da.is_zero():
                    continue
                rest = Poly({tuple(x for j, x in enumerate(m) if j != i): c})
                out = out + rest * Poly.const(e) * (Poly.atom(a) ** (e - 1) if e != 1 else Poly.const(1)) * da
        return out

    def evalf(self, values):
        """Numeric value given atom -> Fraction (plain atoms only)."""
        tot = Fraction(0)
        for m, c in self.t.items():
            v = c
            for a, e in m:
                if a not in values:
                    if a in _ATOMS:
                        v *= _eval_atom(a, values) ** e
                        continue
                    raise Undecided(f"no representative for atom {a}")
                v *= Fraction(values[a]) ** e
            tot += v
        return tot


def _eval_atom(a, values):
    """Numeric value of a structured atom f<args> at the representatives (floating point, for comparisons only)."""
    import math
    f, args = _ATOMS[a]
    if f in ("clip", "clamp", "clip_by_value") and len(args) == 3 and all(isinstance(x, Poly) for x in args):
        v = float(args[0].evalf(values))
        lo = None if str(args[1]) == "NONE" else float(args[1].evalf(values))
        hi = None if str(args[2]) == "NONE" else float(args[2].evalf(values))
        if lo is not None:
            v = max(v, lo)
        if hi is not None:
            v = min(v, hi)
        return Fraction(v)
    xs = []
    for x in args:
        if not isinstance(x, Poly):
            raise Undecided(f"no numeric value for {a}")
        xs.append(float(x.evalf(values)))
    try:
        if f == "sqrt":
            r = math.sqrt(xs[0])
        elif f == "round":
            r = round(xs[0], int(xs[1])) if len(xs) > 1 else round(xs[0])
        elif f == "exp":
            r = math.exp(xs[0])
        elif f == "log":
            r = math.log(xs[0])
        elif f == "pow":
            r = math.pow(xs[0], xs[1])
        elif f == "abs":
            r = abs(xs[0])
        elif f == "inv":
            r = 1.0 / xs[0]
        elif f in ("max", "maximum"):
            r = max(xs)
        elif f in ("min", "minimum"):
            r = min(xs)
        else:
            raise Undecided(f"no numeric model for {f}")
    except (ValueError, OverflowError, ZeroDivisionError):
        raise Undecided(f"{a} is undefined at the representative point")
    return Fraction(r)


class AutoRegion(dict):
    """A region that gives every plain atom without an explicit representative a fixed, generic, positive value
    (for interpreting code whose guards test symbolic DATA against 0: yields and uncertainties are positive)."""

    def __contains__(self, a):
        return dict.__contains__(self, a) or a not in _ATOMS

    def __missing__(self, a):
        import zlib
        h = zlib.crc32(a.encode())
        v = Fraction(3 + h % 97, 1 + (h >> 8) % 5)
        self[a] = v
        return v


def plain_atoms(p, acc=None):
    """Plain (unstructured) atom names occurring in a Poly, recursively through structured atoms."""
    acc = set() if acc is None else acc
    for m in p.t:
        for a, _ in m:
            if a in _ATOMS:
                for x in _ATOMS[a][1]:
                    if isinstance(x, Poly):
                        plain_atoms(x, acc)
            else:
                acc.add(a)
    return acc


def same_value(a, b, pinned=None):
    """True / False / None(undecided): symbolic identity, else agreement at three positive rational points
    (identity testing; only for expressions whose structured atoms have a numeric model).  `pinned` maps atoms
    to values that are kept at all three points (atoms whose sign / regime selected the branch being compared)."""
    a, b = to_poly(a), to_poly(b)
    if a == b:
        return True
    names = sorted(plain_atoms(a) | plain_atoms(b))
    try:
        for seed in (3, 7, 11):
            pt = {n: Fraction(2 + ((i * 37 + seed * 13) % 23), 1 + ((i * 11 + seed) % 7)) for i, n in enumerate(names)}
            if pinned:
                for n in names:
                    if dict.__contains__(pinned, n):
                        pt[n] = Fraction(pinned[n])
            va, vb = float(a.evalf(pt)), float(b.evalf(pt))
            if abs(va - vb) > 1e-9 * max(1.0, abs(va), abs(vb)):
                return False
        return True
    except Undecided:
        return None


def to_poly(x):
    if isinstance(x, Poly):
        return x
    if isinstance(x, bool):
        return Poly.const(int(x))
    if isinstance(x, (int, Fraction)):
        return Poly.const(x)
    if isinstance(x, Obj):
        return Poly.atom(x.name)
    if isinstance(x, float):
        if x != x or x in (float("inf"), float("-inf")):
            return Poly.atom("NAN" if x != x else ("INF" if x > 0 else "NEGINF"))
        return Poly.const(Fraction(str(x)))  # the decimal the literal denotes
    raise Undecided(f"not a scalar: {type(x).__name__}")


def _datom(a, v):
    if a == v:
        return Poly.const(1)
    if a not in _ATOMS:
        return Poly()
    f, args = _ATOMS[a]
    dargs = [x.diff(v) if isinstance(x, Poly) else Poly() for x in args]
    if all(d.is_zero() for d in dargs):
        return Poly()
    me = Poly.atom(a)
    if f == "pow":
        b, e = args
        out = Poly()
        if not dargs[1].is_zero():
            out = out + me * fn("log", b) * dargs[1]
        if not dargs[0].is_zero():
            out = out + e * fn("pow", b, e - 1) * dargs[0]
        return out
    if f == "log":
        return dargs[0] / args[0]
    if f == "exp":
        return me * dargs[0]
    if f == "sqrt":
        return dargs[0] / (2 * me)
    if f == "inv":
        return -dargs[0] * me * me
    raise Undecided(f"derivative of {f} not modelled")


def fn(name, *args):
    """Simplifying constructor of opaque function atoms."""
    args = tuple(to_poly(x) if not isinstance(x, (str, tuple)) else x for x in args)
    if name == "pow":
        b, e = args
        if e.is_const():
            ev = e.const_value()
            if ev.denominator == 1:
                return b ** int(ev)
            if ev == Fraction(1, 2):
                return fn("sqrt", b)
        if b.is_const() and b.const_value() == 1:
            return Poly.const(1)
        # pow(pow(x,a),b) is NOT merged (not valid in general)
    elif name == "sqrt":
        (x,) = args
        if x.is_const():
            v = x.const_value()
            for r in (v.numerator, v.denominator):
                if r < 0 or int(r ** 0.5) ** 2 != r:
                    break
            else:
                return Poly.const(Fraction(int(v.numerator ** 0.5), int(v.denominator ** 0.5)))
        if x.single_term():
            (m, c), = x.t.items()
            if c == 1 and len(m) == 1 and m[0][1] == 1 and m[0][0] not in _ATOMS:
                # sqrt of a plain atom X: register so that X is canonically sqrt<X>^2
                cname = f"sqrt<{m[0][0]}>"
                _ATOMS.setdefault(cname, ("sqrt", args))
                _SQRT_OF[m[0][0]] = cname
                return Poly.atom(cname)
    elif name == "exp":
        (x,) = args
        if x.is_zero():
            return Poly.const(1)
        if x.single_term():
            (m, c), = x.t.items()
            if c == 1 and len(m) == 1 and m[0][1] == 1 and m[0][0] in _ATOMS and _ATOMS[m[0][0]][0] == "log":
                return _ATOMS[m[0][0]][1][0]
    elif name == "log":
        (x,) = args
        if x.is_const() and x.const_value() == 1:
            return Poly()
        if x.single_term():
            (m, c), = x.t.items()
            if c == 1 and len(m) == 1 and m[0][1] == 1 and m[0][0] in _ATOMS and _ATOMS[m[0][0]][0] == "exp":
                return _ATOMS[m[0][0]][1][0]
    elif name == "square":
        return args[0] * args[0]
    elif name == "inv":
        (x,) = args
        if x.single_term():
            return x.inverse()
    cname = f"{name}<" + ";".join(str(a) for a in args) + ">"
    _ATOMS.setdefault(cname, (name, args))
    return Poly.atom(cname)


# ----------------------------------------------------------------------
class Shape:
    def __repr__(self):
        return "<shape>"


SHAPE = Shape()


class FragmentFault(Undecided):
    """The interpreted fragment performs an operation that is definitely invalid on the analysed configuration
    (an index out of range of a tensor whose shape is exact): a defect of the fragment, not of the analysis."""


class NotHandled(Exception):
    """Raised by a method model that does not apply to the receiver it was given."""


class RaisedInFragment(Undecided):
    """The interpreted fragment reaches a `raise` statement on the analysed configuration."""

    def __init__(self, exc_name):
        super().__init__(f"raise reached ({exc_name})")
        self.exc_name = exc_name or "?"


class Obj:
    """An opaque object (model, config ...): attributes and items are again opaque; as a scalar it is an atom."""

    def __init__(self, name, attrs=None, closed=False):
        self.name = name
        self.attrs = attrs or {}
        self.closed = closed  # closed: reading an attribute that is not listed raises AttributeError

    def __repr__(self):
        return f"<obj {self.name}>"


class _PyRaise(Exception):
    """A python exception raised inside the interpreted fragment (only what try/except in the fragment can see)."""

    def __init__(self, exc):
        super().__init__(exc)
        self.exc = exc


class Module:
    def __repr__(self):
        return "<backend/module handle>"


MODULE = Module()
HANDLE_NAMES = {"pyhf.default_backend", "pyhf.tensorlib"}


class HistSet:
    """The (sets, histos, 3, bins) tensor of an interpolator: slot k of axis 2 is an atom."""

    def __init__(self, names=("D", "N", "U")):
        self.names = names

    def slot(self, k):
        return Poly.atom(self.names[k])


class PyFunc:
    """A callee modelled by the checker: called with evaluated (args, kwargs)."""

    def __init__(self, f, name="<model>"):
        self.f = f
        self.name = name

    def __repr__(self):
        return f"<pyfunc {self.name}>"


def tensorlib_obj():
    """ONE stand-in for the tensor backend of an interpreted world: what code keys on it (name, precision) stays equal."""
    return Obj("tensorlib", {"name": "numpy", "precision": "64b"})


class Closure:
    def __init__(self, node, interp):
        self.node = node
        self.interp = interp


class _Return(Exception):
    def __init__(self, v):
        self.v = v


class _Continue(Exception):
    pass


class _Break(Exception):
    pass


ELEMENTWISE_IDENTITY = {"astensor", "tile", "reshape", "tolist", "asarray", "array", "ravel", "broadcast_to", "to_numpy", "float", "transpose", "squeeze", "expand_dims", "copy", "detach", "constant", "convert_to_tensor", "cast", "as_tensor", "tensor"}
OPAQUE_FNS = {"log", "exp", "sqrt", "xlogy", "gammaln", "lgamma", "erf", "erfc", "normal_cdf", "log1p", "expm1", "ndtr", "log_ndtr"}
MODULE_NAMES = {"tensorlib", "default_backend", "np", "numpy", "math", "jnp", "tb", "torch", "tf", "special", "scipy", "jax", "tfp", "self"}


def is_memoising(fnode):
    for d in getattr(fnode, "decorator_list", []):
        name = (A.dotted(d.func) if isinstance(d, ast.Call) else A.dotted(d)) or ""
        if name.split(".")[-1] in ("lru_cache", "cache", "cached_property"):
            return True
    return False


def memo_key(v):
    """argument identity as functools sees it: values by value, objects by identity, paths by value"""
    if isinstance(v, (str, bool)) or v is None:
        return ("v", v)
    if isinstance(v, Poly):
        return ("p", str(v))
    if isinstance(v, (tuple, list)):
        return ("t", tuple(memo_key(x) for x in v))
    if isinstance(v, Obj) and v.name == "path" and isinstance(v.attrs.get("p"), str):
        return ("path", v.attrs["p"])
    return ("id", id(v))


_NOHOME = object()


class Record(dict):
    """a scenario's stand-in for `a few named pieces handed on together`: readable by key (a dict) and by attribute (a named
    tuple / small class) -- which of the two the code uses is its business"""
    _record = True


def as_record(v):
    """the pieces as a plain dict, whatever carries them (dict, named tuple, Obj)"""
    if isinstance(v, dict):
        return dict(v)
    if isinstance(v, tuple) and hasattr(v, "_asdict"):
        return dict(v._asdict())
    if isinstance(v, Obj):
        return dict(v.attrs)
    return {}


class _DefaultDict(dict):
    """collections.defaultdict with one of the builtin factories: a missing key read with d[k] is created"""

    def __init__(self, factory):
        super().__init__()
        self.factory = factory

    def __missing__(self, k):
        if self.factory is None:
            raise KeyError(k)
        v = {"list": list, "dict": dict, "set": set, "int": lambda: Poly.const(0)}[self.factory]()
        self[k] = v
        return v


class _ChainMap(dict):
    """collections.ChainMap over live mappings: reads search the maps in order, writes go to the first one"""

    def __init__(self, *maps):
        super().__init__()
        self.maps = list(maps) or [{}]

    def _merged(self):
        out = {}
        for m_ in reversed(self.maps):
            out.update(m_)
        return out

    def __contains__(self, k):
        return any(k in m_ for m_ in self.maps)

    def __getitem__(self, k):
        for m_ in self.maps:
            if k in m_:
                return m_[k]
        raise KeyError(k)

    def get(self, k, d=None):
        return self[k] if k in self else d

    def __setitem__(self, k, v):
        self.maps[0][k] = v

    def __delitem__(self, k):
        del self.maps[0][k]

    def pop(self, k, *d):
        return self.maps[0].pop(k, *d)

    def __iter__(self):
        return iter(self._merged())

    def __len__(self):
        return len(self._merged())

    def keys(self):
        return self._merged().keys()

    def values(self):
        return self._merged().values()

    def items(self):
        return self._merged().items()

    def __bool__(self):
        return any(self.maps)


def _is_generator(fnode):
    def walk(n):
        for c in ast.iter_child_nodes(n):
            if isinstance(c, (ast.FunctionDef, ast.AsyncFunctionDef, ast.Lambda, ast.ClassDef)):
                continue
            if isinstance(c, (ast.Yield, ast.YieldFrom)):
                return True
            if walk(c):
                return True
        return False
    return walk(fnode)


class Interp:
    def __init__(self, env=None, selfattrs=None, region=None, methods=None, cls_name=None, max_steps=200000, externals=None):
        self.externals = externals or {}  # call name -> f(args, kwargs) modelling a callee outside the fragment
        self.env = dict(env or {})
        self.selfattrs = selfattrs if selfattrs is not None else {}
        self.region = region if isinstance(region, AutoRegion) else dict(region or {})  # atom -> Fraction representative (decides comparisons)
        self.methods = methods or {}  # name -> FunctionDef for self.method(...) inlining
        self.cls_name = cls_name
        self.thresholds_seen = []  # (lhs poly, op, rhs poly) for every decided comparison
        self.attr_sets = []  # attribute stores on non-self objects, in order (shared with sub-interpreters)
        self.assign_trace = {}  # id(assignment statement) -> value assigned (shared with sub-interpreters)
        self.steps = 0
        self.max_steps = max_steps

    # -- statements ------------------------------------------------------
    def run(self, body):
        try:
            self.exec_block(body)
        except _Return as r:
            return r.v
        except _PyRaise as pr:
            raise RaisedInFragment(pr.exc)  # leaves this function as an exception a caller's `except` may name
        return None

    def call_function(self, fnode, args, kwargs=None, bind_self=False):
        if is_memoising(fnode) and not getattr(self, "_in_memo", False):
            # functools.lru_cache / cache / cached_property on a method or function: one result per (object, arguments) for the life
            # of the process -- later calls never run the body again, whatever changed in between
            memo = self.externals.setdefault("__memo__", {})
            key = (fnode.name, getattr(fnode, "lineno", 0), id(self.env.get("self")) if bind_self else None, memo_key(list(args)), memo_key(sorted((kwargs or {}).items())))
            if key in memo:
                return memo[key]
            self._in_memo = True
            try:
                memo[key] = self.call_function(fnode, args, kwargs, bind_self)
            finally:
                self._in_memo = False
            return memo[key]
        sub = Interp(self.env, self.selfattrs, self.region, self.methods, self.cls_name, externals=self.externals)
        sub._outer = self
        sub.thresholds_seen = self.thresholds_seen
        sub.attr_sets = self.attr_sets
        sub.assign_trace = self.assign_trace
        params = [a.arg for a in fnode.args.posonlyargs + fnode.args.args]
        if bind_self and params and params[0] == "self":
            params = params[1:]
        dflt = A.param_defaults(fnode)
        kwargs = kwargs or {}
        for i, p in enumerate(params):
            if i < len(args):
                sub.env[p] = args[i]
            elif p in kwargs:
                sub.env[p] = kwargs[p]
            elif p in dflt:
                d_ = dflt[p]
                if isinstance(d_, (ast.Dict, ast.List, ast.Set)):
                    # a mutable default is ONE object shared by every call that omits the argument
                    store_ = self.externals.setdefault("__defaults__", {})
                    if (id(fnode), p) not in store_:
                        store_[(id(fnode), p)] = self.eval(d_)
                    sub.env[p] = store_[(id(fnode), p)]
                else:
                    sub.env[p] = self.eval(d_)
            else:
                raise Undecided(f"missing argument {p}")
        kwd = dict(zip([a.arg for a in fnode.args.kwonlyargs], fnode.args.kw_defaults))
        for p, d_ in kwd.items():
            if p in kwargs:
                sub.env[p] = kwargs[p]
            elif d_ is not None:
                sub.env[p] = self.eval(d_)
            else:
                raise Undecided(f"missing keyword-only argument {p}")
        if fnode.args.vararg is not None:
            sub.env[fnode.args.vararg.arg] = tuple(args[len(params):])
        if fnode.args.kwarg is not None:
            sub.env[fnode.args.kwarg.arg] = {k: v for k, v in kwargs.items() if k not in params and k not in kwd}
        if _is_generator(fnode):
            # A generator function is run to exhaustion at the call and stands for the list of what it yields.  That is what
            # its consumer sees provided the two do not talk through shared state between the yields: a generator that
            # stores into attributes / items of something it was handed is not interpreted.
            handed = set(params) | {"self"}
            for n_ in ast.walk(fnode):
                if isinstance(n_, (ast.Attribute, ast.Subscript)) and isinstance(n_.ctx, (ast.Store, ast.Del)):
                    b_ = n_
                    while isinstance(b_, (ast.Attribute, ast.Subscript)):
                        b_ = b_.value
                    if isinstance(b_, ast.Name) and b_.id in handed:
                        raise Undecided(f"generator {fnode.name} stores into `{b_.id}` between its yields")
            sub._yields = []
            sub.run(A.strip_docstring(fnode.body))
            return sub._yields
        return sub.run(A.strip_docstring(fnode.body))

    def _home_name(self, e):
        """a name the scenario did not provide, looked up in the module the code under interpretation lives in: a private
        helper function (interpreted when called), a module-level table or constant (evaluated once per scenario), or one
        of those imported from a sibling module of the package"""
        from . import home
        m, _cls = home.of(e)
        r = home.repo()
        if m is None or r is None or e.id in self.externals:
            return _NOHOME
        for fn_ in home.enclosing_functions(e):
            # a parameter of the function whose body is interpreted, left out by the scenario: its default
            dflt_ = dict(A.param_defaults(fn_))
            dflt_.update({a.arg: d for a, d in zip(fn_.args.kwonlyargs, fn_.args.kw_defaults) if d is not None})
            if e.id in dflt_ and not isinstance(dflt_[e.id], (ast.Dict, ast.List, ast.Set)):
                return self.eval(dflt_[e.id])
            if e.id in {a.arg for a in fn_.args.posonlyargs + fn_.args.args + fn_.args.kwonlyargs}:
                return _NOHOME
        kind, obj = r.resolve_name(m, e.id)
        if kind == "func" and "." not in obj.qualname:
            return Closure(obj.node, None)
        if kind == "class" and any((A.dotted(b) or "").split(".")[-1] == "NamedTuple" for b in obj.node.bases):
            import collections as _c
            fields_, dfl_ = [], []
            for st_ in obj.node.body:
                if isinstance(st_, ast.AnnAssign) and isinstance(st_.target, ast.Name):
                    fields_.append(st_.target.id)
                    if st_.value is not None:
                        dfl_.append(self.eval(st_.value))
                    elif dfl_:
                        return _NOHOME
            if fields_ and any(isinstance(st_, (ast.FunctionDef, ast.AsyncFunctionDef)) for st_ in obj.node.body) and self.externals.get("__world__") is None:
                return _NOHOME  # properties / methods on the record: the object model's business
            if fields_ and not any(isinstance(st_, (ast.FunctionDef, ast.AsyncFunctionDef)) for st_ in obj.node.body):
                nt_ = _c.namedtuple(obj.name, fields_, defaults=dfl_ or None)
                return PyFunc(lambda a, k, nt_=nt_: nt_(*a, **k), obj.name)
        if kind == "class" and not any((A.dotted(b) or "").split(".")[-1] in ("Exception", "BaseException", "ValueError", "TypeError", "KeyError", "RuntimeError") for b in obj.node.bases):
            # a private class of the package the scenario did not list (a small record / registry / layout class introduced by a
            # refactoring): instantiated by the object model like the classes the scenario names
            from .objmodel import World
            wld = self.externals.get("__world__")
            if wld is None:
                # a function-level scenario meets a class: an object model is set up around the scenario's own table of modelled
                # callees, and its hooks (constructors, method dispatch on instances, properties) join that table
                base_ = {k_: v_ for k_, v_ in self.externals.items() if not k_.startswith("__") or k_ in ("__elementwise__", "__strict__")}
                base_.setdefault("__strict__", bool(self.externals.get("__strict__", False)))
                wld = World(base_, region=self.region, module_env={k_: v_ for k_, v_ in self.env.items() if isinstance(v_, (Obj, PyFunc)) and k_ != "self"})
                self.externals["__world__"] = wld
            if obj.name not in wld.classes:
                wld.add_class(obj)
                fresh_ = wld.externals()  # the new class's constructor and method dispatchers, for every interpreter sharing this table
                for k_, v_ in fresh_.items():
                    if k_ not in self.externals or k_.startswith("."):
                        self.externals[k_] = v_
            return PyFunc(lambda a, k, wld=wld, obj=obj: wld.new(obj, a, k), obj.name)
        if kind == "assign":
            store = self.externals.setdefault("__modconst__", {})
            key = id(obj)
            if key not in store:
                # module scope: the scenario's stand-ins for module-level names (kept in the flat environment) are what the
                # initialiser sees; the interpreted function's own parameters and locals are not
                fn_ = home.func_of(e)
                own_ = set()
                if fn_ is not None:
                    own_ = {n_.id for n_ in ast.walk(fn_) if isinstance(n_, ast.Name) and isinstance(n_.ctx, ast.Store)} | {a.arg for a in ast.walk(fn_) if isinstance(a, ast.arg)}
                sub = Interp({k_: v_ for k_, v_ in self.env.items() if k_ not in own_}, {}, self.region, {}, None, externals=self.externals)
                store[key] = sub.eval(obj)
            return store[key]
        return _NOHOME

    def _home_method(self, node, name):
        """method `name` of the class the node lives in (package base classes included), when the scenario lists no methods"""
        from . import home
        _m, cls = home.of(node)
        f = home.method_of(cls, name)
        return f.node if f is not None else None

    def _call_closure(self, clo, args, kwargs=None):
        """A closure runs in the scope it was DEFINED in (free variables of a function returned by a factory are the
        factory's), falling back to the caller's scope for closures built by hand."""
        home = clo.interp if isinstance(getattr(clo, "interp", None), Interp) else self
        if isinstance(clo.node, ast.Lambda):
            sub = Interp(home.env, home.selfattrs, self.region, home.methods, home.cls_name, externals=self.externals)
            for p, a in zip([x.arg for x in clo.node.args.args], args):
                sub.env[p] = a
            return sub.eval(clo.node.body)
        return home.call_function(clo.node, args, kwargs or {})

    def exec_block(self, body):
        for st in body:
            self.exec(st)

    def exec(self, st):
        self.steps += 1
        if self.steps > self.max_steps:
            raise Undecided("step limit")
        if isinstance(st, ast.Assign):
            v = self.eval(st.value)
            self.assign_trace[id(st)] = v
            for t in st.targets:
                self.assign(t, v)
        elif isinstance(st, ast.AnnAssign):
            if st.value is not None:
                self.assign(st.target, self.eval(st.value))
        elif isinstance(st, ast.AugAssign):
            cur = self.eval(_as_load(st.target))
            rhs = self.eval(st.value)
            if type(cur) is list and isinstance(st.op, ast.Add) and isinstance(rhs, (list, tuple)) and not self.externals.get("__elementwise__"):
                cur.extend(rhs)  # `lst += other` extends the SAME list object (every other reference to it sees the change)
                v = cur
            else:
                v = self.binop(st.op, cur, rhs)
            self.assign(st.target, v)
        elif isinstance(st, ast.Return):
            raise _Return(self.eval(st.value) if st.value is not None else None)
        elif isinstance(st, ast.If):
            c = self.truth(self.eval(st.test))
            self.exec_block(st.body if c else st.orelse)
        elif isinstance(st, ast.For):
            it = self.iterable(self.eval(st.iter), "loop")
            for x in it:
                self.assign(st.target, x)
                try:
                    self.exec_block(st.body)
                except _Continue:
                    continue
                except _Break:
                    break
        elif isinstance(st, ast.While):
            n_iter = 0
            broke = False
            while self.truth(self.eval(st.test)):
                n_iter += 1
                if n_iter > 64:
                    raise Undecided("while loop does not terminate within 64 iterations on the analysed configuration")
                try:
                    self.exec_block(st.body)
                except _Continue:
                    continue
                except _Break:
                    broke = True
                    break
            if not broke:
                self.exec_block(st.orelse)
        elif isinstance(st, ast.Delete):
            for t in st.targets:
                if isinstance(t, ast.Subscript):
                    base = self.eval(t.value)
                    if isinstance(base, list):
                        del base[int(to_poly(self.eval(t.slice)).const_value())]
                    elif isinstance(base, dict):
                        del base[self.eval(t.slice)]
                    else:
                        raise Undecided("del on a non-container")
                elif isinstance(t, ast.Name):
                    self.env.pop(t.id, None)
                else:
                    raise Undecided("del target")
        elif isinstance(st, ast.Continue):
            raise _Continue()
        elif isinstance(st, ast.Break):
            raise _Break()
        elif isinstance(st, (ast.Expr, ast.Assert, ast.Pass)):
            if isinstance(st, ast.Expr) and isinstance(st.value, (ast.Yield, ast.YieldFrom)):
                self.eval(st.value)
            if isinstance(st, ast.Expr) and isinstance(st.value, (ast.Attribute, ast.Subscript)):
                # a bare `x.attr` / `d[k]` statement is an existence probe: only the exception it may raise matters
                try:
                    self.eval(st.value)
                except Undecided:
                    pass
            if isinstance(st, ast.Expr) and isinstance(st.value, ast.Call):
                # effects on local containers (append/add/setdefault...) and modelled externals are evaluated;
                # calls outside the fragment (log.warning, self._precompute_alphasets(...)) have no modelled effect
                try:
                    self.eval(st.value)
                except Undecided:
                    # strict mode (object-model interpretation): a statement whose effect cannot be modelled makes
                    # the whole fragment undecided, except pure diagnostics
                    root = (A.dotted(st.value.func) or "").split(".")[0]
                    if self.externals.get("__strict__") and root not in ("log", "logging", "warnings", "logger", "print"):
                        raise
        elif isinstance(st, ast.Try):
            # the normal (non-raising) path: body, else, finally; exceptions modelled by the interpreter itself
            # (AttributeError on a closed object) are dispatched to the matching handler
            try:
                self.exec_block(st.body)
            except (_PyRaise, RaisedInFragment) as pr:
                # exceptions of python itself modelled by the interpreter (AttributeError on a closed object, KeyError ...)
                # and `raise X(...)` statements reached in interpreted callees: dispatched by class NAME (the handler's
                # last dotted component; `Exception` / a bare except take everything)
                exc_ = pr.exc if isinstance(pr, _PyRaise) else pr.exc_name.split(".")[-1]
                if exc_ in ("?", "<re-raise>"):
                    raise
                for h in st.handlers:
                    names = [] if h.type is None else [A.call_attr(ast.Call(func=t, args=[], keywords=[])) for t in (h.type.elts if isinstance(h.type, ast.Tuple) else [h.type])]
                    if h.type is None or exc_ in names or "Exception" in names or "BaseException" in names:
                        if h.name:
                            self.env[h.name] = Obj(exc_)
                        try:
                            self.exec_block(h.body)
                        except RaisedInFragment as again:
                            if again.exc_name == "<re-raise>":
                                raise RaisedInFragment(exc_)  # a bare `raise` in the handler: the exception being handled
                            raise
                        break
                else:
                    self.exec_block(st.finalbody)
                    raise
            else:
                self.exec_block(st.orelse)
            self.exec_block(st.finalbody)
        elif isinstance(st, ast.With):
            for it in st.items:
                v = self.eval(it.context_expr) if A.call_attr(it.context_expr) in self.externals else Obj(A.short(it.context_expr, 30))
                if it.optional_vars is not None:
                    self.assign(it.optional_vars, v)
            self.exec_block(st.body)
        elif isinstance(st, ast.FunctionDef):
            self.env[st.name] = Closure(st, self)
        elif isinstance(st, (ast.Import, ast.ImportFrom)):
            # a function-level import binds module / attribute names; what they stand for is modelled by the externals
            for al in st.names:
                nm = al.asname or al.name.split(".")[0]
                if nm not in self.env:
                    self.env[nm] = Obj(al.name)
        elif isinstance(st, (ast.Global, ast.Nonlocal)):
            # reads and in-place operations go to the shared object anyway; REBINDING such a name is not modelled
            if isinstance(st, ast.Global):
                self.outer_names = getattr(self, "outer_names", set()) | set(st.names)
            else:
                self.nonlocal_names = getattr(self, "nonlocal_names", set()) | set(st.names)
        elif isinstance(st, ast.Raise):
            exc = st.exc.func if isinstance(st.exc, ast.Call) else st.exc
            raise RaisedInFragment(A.dotted(exc) if exc is not None else "<re-raise>")
        else:
            raise Undecided(f"statement {type(st).__name__}")

    def assign(self, t, v):
        if isinstance(t, ast.Name):
            if t.id in getattr(self, "nonlocal_names", ()):
                # the binding lives in the frame of the enclosing function: the interpreter this one was called from (for a
                # closure: the one it was defined in); later calls copy their scope from there and see the new value
                fr_ = getattr(self, "_outer", None)
                while fr_ is not None and t.id not in fr_.env:
                    fr_ = getattr(fr_, "_outer", None)
                if fr_ is None:
                    raise Undecided(f"rebinding of the nonlocal name {t.id}: enclosing binding not found")
                fr_.env[t.id] = v
            if t.id in getattr(self, "outer_names", ()):
                shared = self.externals.get("__module_env__")
                if shared is None:
                    raise Undecided(f"rebinding of the global/nonlocal name {t.id}")
                shared[t.id] = v  # module-level state of the interpreted world: later calls see the new binding
            self.env[t.id] = v
        elif isinstance(t, ast.Attribute) and isinstance(t.value, ast.Name) and t.value.id == "self":
            setters = self.externals.get("__setters__")
            inst_ = self.env.get("self")
            cname_ = getattr(getattr(inst_, "cls", None), "name", None) or self.cls_name
            snode = (setters(cname_) if callable(setters) and cname_ else {}).get(t.attr)
            if snode is not None and not getattr(self, "_in_setter", None) == t.attr:
                sub = Interp(self.env, self.selfattrs, self.region, self.methods, self.cls_name, externals=self.externals)
                sub._in_setter = t.attr  # inside the setter `self.<name> = ...` cannot occur again without recursion in python either
                sub.call_function(snode, [v], {}, bind_self=True)
            else:
                self.selfattrs[self._mangle(t.attr)] = v
        elif isinstance(t, ast.Attribute) and isinstance(t.value, ast.Name) and t.value.id not in self.env and t.value.id in (self.externals.get("__class_state__") or {}):
            self.externals["__class_state__"][t.value.id][t.attr] = v
        elif isinstance(t, (ast.Tuple, ast.List)):
            stars = [i for i, x in enumerate(t.elts) if isinstance(x, ast.Starred)]
            if len(stars) == 1 and isinstance(v, (list, tuple)) and len(v) >= len(t.elts) - 1:
                i = stars[0]
                n_after = len(t.elts) - i - 1
                for a, b in zip(t.elts[:i], v[:i]):
                    self.assign(a, b)
                self.assign(t.elts[i].value, list(v[i:len(v) - n_after]))
                for a, b in zip(t.elts[i + 1:], v[len(v) - n_after:] if n_after else []):
                    self.assign(a, b)
                return
            if isinstance(v, (list, tuple)) and len(v) != len(t.elts) and not stars:
                raise _PyRaise("ValueError")  # too many / not enough values to unpack
            if not isinstance(v, (list, tuple)) or len(v) != len(t.elts):
                raise Undecided("tuple unpacking of a non-tuple")
            for a, b in zip(t.elts, v):
                self.assign(a, b)
        elif isinstance(t, ast.Subscript):
            base = self.eval(t.value)
            mask = None
            if isinstance(base, list) and self.externals.get("__elementwise__") and not isinstance(t.slice, (ast.Slice, ast.Tuple, ast.Constant)):
                m_ = self.eval(t.slice)
                if isinstance(m_, list) and len(m_) == len(base) and all(isinstance(x, bool) for x in m_):
                    mask = m_
            idxs = None
            if mask is None and isinstance(base, list) and not isinstance(t.slice, (ast.Slice, ast.Tuple, ast.Constant)):
                m_ = self.eval(t.slice)
                if isinstance(m_, list) and m_ and all(isinstance(x, Poly) and x.is_const() for x in m_):
                    idxs = [int(x.const_value()) for x in m_]  # x[list of positions] = scalar / one value per position
            if idxs is not None:
                if any(i_ < -len(base) or i_ >= len(base) for i_ in idxs) or (isinstance(v, (list, tuple)) and len(v) != len(idxs)):
                    raise Undecided("fancy-index assignment out of range")
                for j_, i_ in enumerate(idxs):
                    base[i_] = v[j_] if isinstance(v, (list, tuple)) else v
            elif mask is not None:
                # x[boolean mask] = scalar / sequence of as many values as the mask selects
                vals = iter(v) if isinstance(v, (list, tuple)) else None
                for i_, on in enumerate(mask):
                    if on:
                        base[i_] = next(vals) if vals is not None else v
            elif isinstance(base, list):
                _nd_set(base, self._index_tuple(t.slice), v)
            elif isinstance(base, dict):
                base[self.eval(t.slice)] = v
            else:
                raise Undecided(f"item assignment on {type(base).__name__}")
        elif isinstance(t, ast.Attribute):
            self.attr_sets.append((A.dotted(t), v))  # e.g. pars.requires_grad = True: recorded
            try:
                basev = self.eval(t.value)
            except Undecided:
                basev = None
            if isinstance(basev, Obj):
                basev.attrs[t.attr] = v  # attribute store on a modelled object
        else:
            raise Undecided(f"assignment target {A.short(t, 40)}")

    def _index_tuple(self, sl):
        """Evaluate a subscript expression to a tuple of python ints / slices / bool lists."""
        parts = sl.elts if isinstance(sl, ast.Tuple) else [sl]
        out = []
        for p in parts:
            if isinstance(p, ast.Slice):
                f_ = lambda n: None if n is None else int(to_poly(self.eval(n)).const_value())
                out.append(slice(f_(p.lower), f_(p.upper), f_(p.step)))
            else:
                v = self.eval(p)
                if isinstance(v, Obj) and v.name == "slice" and "stop" in v.attrs:
                    g_ = lambda x: None if x is None else int(to_poly(x).const_value())
                    out.append(slice(g_(v.attrs.get("start")), g_(v.attrs.get("stop")), g_(v.attrs.get("step"))))
                elif isinstance(v, list) and all(isinstance(b, bool) for b in v):
                    out.append(list(v))
                elif isinstance(v, bool):
                    raise Undecided("boolean scalar index")
                else:
                    out.append(int(to_poly(v).const_value()))
        return tuple(out)

    def _mangle(self, attr):
        return A.mangle(self.cls_name, attr) if self.cls_name else attr

    # -- expressions -----------------------------------------------------
    def truth(self, v):
        if isinstance(v, bool):
            return v
        if v is None:
            return False
        if isinstance(v, Poly):
            if v.is_const():
                return v.const_value() != 0
            if isinstance(self.region, AutoRegion):
                try:
                    return v.evalf(self.region) != 0  # generic symbolic data are non-zero; explicit representatives decide the rest
                except Undecided:
                    pass
            raise Undecided(f"truth value of symbolic {v}")
        if isinstance(v, (list, tuple, str, dict)):
            return bool(v)
        if isinstance(v, Obj) and "__bool__" in self.externals:
            try:
                return bool(self.externals["__bool__"](v))
            except NotHandled:
                pass
        if isinstance(v, (Obj, Closure, PyFunc)):
            return True
        if isinstance(v, set):
            return bool(v)
        raise Undecided("truth value")

    def binop(self, op, a, b):
        if isinstance(op, (ast.BitOr, ast.BitAnd, ast.BitXor)) and isinstance(a, bool) and isinstance(b, bool):
            return (a | b) if isinstance(op, ast.BitOr) else ((a & b) if isinstance(op, ast.BitAnd) else (a ^ b))
        if self.externals.get("__elementwise__"):
            from .listnp import T as _T, arith as _arith
            if isinstance(op, (ast.BitOr, ast.BitAnd, ast.BitXor)) and (isinstance(a, list) or isinstance(b, list)):
                from .listnp import _flatten, _zip, wrap
                if all(isinstance(x, bool) for x in (_flatten(a) if isinstance(a, list) else [a]) + (_flatten(b) if isinstance(b, list) else [b])):
                    return wrap(_zip(lambda x, y: (x | y) if isinstance(op, ast.BitOr) else ((x & y) if isinstance(op, ast.BitAnd) else (x ^ y)), a, b))
            if isinstance(a, _T) or isinstance(b, _T):
                sym = {ast.Add: "+", ast.Sub: "-", ast.Mult: "*", ast.Div: "/", ast.Pow: "**"}.get(type(op))
                if sym is None:
                    raise Undecided(f"operator {type(op).__name__} on tensors")
                return _arith(sym, a, b)
        if isinstance(a, (list, tuple)) and isinstance(b, (list, tuple)) and isinstance(op, ast.Add):
            return tuple(a) + tuple(b) if isinstance(a, tuple) and isinstance(b, tuple) else list(a) + list(b)
        if isinstance(op, ast.Div) and isinstance(a, Obj) and a.name == "path" and ".joinpath" in self.externals:
            return self.externals[".joinpath"](a, [b], {})  # pathlib: `base / part` is base.joinpath(part)
        if a is SHAPE or b is SHAPE:
            return SHAPE
        if isinstance(a, str) and isinstance(b, str) and isinstance(op, ast.Add):
            return a + b
        if isinstance(op, ast.Add) and isinstance(a, (str, bytes)) and isinstance(b, Obj) and b.name == "xmltext":
            return b  # a document type line in front of a serialised element: still that element's text
        if isinstance(a, bytes) and isinstance(b, bytes) and isinstance(op, ast.Add):
            return a + b
        if isinstance(a, str) and isinstance(op, ast.Mult) and isinstance(b, Poly) and b.is_const():
            return a * int(b.const_value())
        if isinstance(b, str) and isinstance(op, ast.Mult) and isinstance(a, Poly) and a.is_const():
            return b * int(a.const_value())
        if isinstance(a, (list, tuple)) and isinstance(op, ast.Mult) and isinstance(b, Poly) and b.is_const():
            return a * int(b.const_value())
        if isinstance(b, (list, tuple)) and isinstance(op, ast.Mult) and isinstance(a, Poly) and a.is_const():
            return b * int(a.const_value())
        a, b = to_poly(a), to_poly(b)
        if isinstance(op, ast.Add):
            return a + b
        if isinstance(op, ast.Sub):
            return a - b
        if isinstance(op, ast.Mult):
            return a * b
        if isinstance(op, ast.Div):
            if b.is_zero():
                return Poly.atom("NAN") if a.is_zero() else Poly.atom("DIVZERO") * a  # numpy: nan / signed inf, no exception
            return a / b
        if isinstance(op, ast.Pow):
            return fn("pow", a, b)
        raise Undecided(f"operator {type(op).__name__}")

    def compare(self, op, a, b):
        if isinstance(a, str) or isinstance(b, str) or a is None or b is None:
            if isinstance(op, (ast.Eq, ast.Is)):
                return a == b
            if isinstance(op, (ast.NotEq, ast.IsNot)):
                return a != b
            raise Undecided("comparison of non-numbers")
        if a is SHAPE or b is SHAPE:
            raise Undecided("shape comparison")
        if isinstance(a, Obj) and isinstance(b, Obj) and isinstance(op, (ast.Eq, ast.NotEq)):
            if a is not b and "__eq__" in self.externals:
                try:
                    return bool(self.externals["__eq__"](a, b)) == isinstance(op, ast.Eq)  # the class's own __eq__
                except NotHandled:
                    pass
            return (a is b) == isinstance(op, ast.Eq)
        if isinstance(a, (tuple, list, dict)) and isinstance(b, (tuple, list, dict)) and isinstance(op, (ast.Eq, ast.NotEq)):
            return (a == b) == isinstance(op, ast.Eq)
        if isinstance(op, (ast.Eq, ast.NotEq)) and ((isinstance(a, Obj) and isinstance(b, (tuple, list, dict))) or (isinstance(b, Obj) and isinstance(a, (tuple, list, dict)))):
            return isinstance(op, ast.NotEq)  # an opaque stand-in is a GENERIC value: not this particular literal
        a, b = to_poly(a), to_poly(b)
        d = a - b
        self.thresholds_seen.append((a, type(op).__name__, b))
        try:
            v = d.evalf(self.region)
        except Undecided:
            if d.is_zero():
                v = Fraction(0)
            else:
                raise Undecided(f"comparison {a} {type(op).__name__} {b} not decided by the region")
        return {
            ast.Gt: v > 0, ast.GtE: v >= 0, ast.Lt: v < 0, ast.LtE: v <= 0, ast.Eq: v == 0, ast.NotEq: v != 0,
        }[type(op)]

    def eval(self, e):
        self.steps += 1
        if self.steps > self.max_steps:
            raise Undecided("step limit")
        if isinstance(e, ast.Constant):
            v = e.value
            if isinstance(v, bool) or v is None or isinstance(v, (str, bytes)):
                return v
            if isinstance(v, (int, float)):
                return to_poly(v)
            raise Undecided("constant")
        if isinstance(e, (ast.Yield, ast.YieldFrom)):
            if not hasattr(self, "_yields"):
                raise Undecided("yield outside an interpreted generator call")
            if isinstance(e, ast.Yield):
                self._yields.append(self.eval(e.value) if e.value is not None else None)
            else:
                self._yields.extend(self.iterable(self.eval(e.value), "yield from"))
            return None
        if isinstance(e, ast.Name):
            if e.id in self.env:
                return self.env[e.id]
            if e.id in ("True", "False"):
                return e.id == "True"
            if self.externals.get("__strict__") and callable(self.externals.get(e.id)):
                ext_f = self.externals[e.id]
                return PyFunc(lambda a, k, ext_f=ext_f: ext_f(a, k), e.id)  # a modelled function / class used as a value
            if e.id in ("float", "int", "bool", "complex"):
                return e.id  # a builtin scalar type used as a VALUE (dtype=float): stands for the dtype of that name
            hv = self._home_name(e)
            if hv is not _NOHOME:
                return hv
            if callable(self.externals.get(e.id)) and not e.id.startswith(("__", ".")):
                ext_f = self.externals[e.id]
                return PyFunc(lambda a, k, ext_f=ext_f: ext_f(a, k), e.id)  # a modelled function bound to another name before it is called
            raise Undecided(f"unknown name {e.id}")
        if isinstance(e, ast.Attribute):
            if isinstance(e.value, ast.Name) and e.value.id == "self":
                k = self._mangle(e.attr)
                if k in self.selfattrs:
                    return self.selfattrs[k]
                if e.attr in self.methods and any(A.dotted(d) in ("property", "functools.cached_property", "cached_property") for d in self.methods[e.attr].decorator_list):
                    return self.call_function(self.methods[e.attr], [], {}, bind_self=True)
                if e.attr in self.methods:
                    node = self.methods[e.attr]
                    return PyFunc(lambda a, kw, node=node: self.call_function(node, a, kw, bind_self=True), f"self.{e.attr}")
                cs_ = self.externals.get("__class_state__")
                if cs_ is not None:
                    inst_ = self.env.get("self")
                    for cn_ in ([getattr(getattr(inst_, "cls", None), "name", None)] if inst_ is not None else []) + [self.cls_name]:
                        if cn_ in cs_ and e.attr in cs_[cn_]:
                            return cs_[cn_][e.attr]  # class-level attribute read through the instance
                mn = self._home_method(e, e.attr)
                if mn is not None and any(A.dotted(d) in ("property", "functools.cached_property", "cached_property") for d in mn.decorator_list):
                    return self.call_function(mn, [], {}, bind_self=True)
                raise Undecided(f"unknown attribute self.{e.attr}")
            if isinstance(e.value, ast.Name) and e.value.id not in self.env and e.value.id in (self.externals.get("__class_state__") or {}):
                cs_ = self.externals["__class_state__"][e.value.id]
                if e.attr in cs_:
                    return cs_[e.attr]  # ClassName.attr: state shared by every instance
                raise Undecided(f"class attribute {e.value.id}.{e.attr} not modelled")
            if A.dotted(e) in HANDLE_NAMES:
                return MODULE
            if isinstance(e.value, (ast.Name, ast.Attribute, ast.Subscript, ast.Call)):
                try:
                    basev = self.eval(e.value)
                except Undecided:
                    basev = None
                if basev is MODULE and e.attr in ("name", "precision"):
                    return "numpy" if e.attr == "name" else "64b"  # the backend in force during an interpreted scenario
                if isinstance(basev, Obj):
                    if e.attr in basev.attrs:
                        return basev.attrs[e.attr]
                    if "__getattr__" in self.externals:
                        try:
                            return self.externals["__getattr__"](basev, e.attr)
                        except NotHandled:
                            pass
                    if basev.closed:
                        raise _PyRaise("AttributeError")
                    nb_ = basev.attrs.get("channel_nbins")
                    if isinstance(nb_, dict) and isinstance(basev.attrs.get("channels"), list) and e.attr in ("nmaindata", "channel_slices"):
                        # a stand-in for the channel summary of a configuration (channels in their order, bins per channel):
                        # the total and the slices are what that summary defines them to be (C12.R8 / C01.R13 decide the real one)
                        if e.attr == "nmaindata":
                            tot_ = Poly.const(0)
                            for ch_ in basev.attrs["channels"]:
                                tot_ = tot_ + to_poly(nb_[ch_])
                            return tot_
                        out_, at_ = {}, Poly.const(0)
                        for ch_ in basev.attrs["channels"]:
                            out_[ch_] = Obj("slice", {"start": at_, "stop": at_ + to_poly(nb_[ch_])})
                            at_ = at_ + to_poly(nb_[ch_])
                        return out_
                    return Obj(f"{basev.name}.{e.attr}")
                if isinstance(basev, dict) and getattr(basev, "_record", False) and e.attr in basev:
                    return basev[e.attr]
                if isinstance(basev, tuple) and e.attr in getattr(basev, "_fields", ()):
                    return getattr(basev, e.attr)  # a field of a named tuple
                if isinstance(basev, Poly) and e.attr in ("dtype", "device"):
                    return Obj(e.attr)
                if isinstance(basev, Poly) and e.attr == "grad":
                    return fn("ACCUMULATED_GRAD_ATTRIBUTE", basev)  # tensor.grad: whatever backward() calls have added up so far
            if e.attr == "ndim" and self.externals.get("__elementwise__"):
                try:
                    bv = self.eval(e.value)
                except Undecided:
                    bv = None
                if isinstance(bv, list):
                    from .listnp import _shape as _lshape
                    return Poly.const(len(_lshape(bv)))
            if e.attr == "shape" and self.externals.get("__elementwise__"):
                try:
                    bv = self.eval(e.value)
                except Undecided:
                    bv = None
                if isinstance(bv, list):
                    from .listnp import _shape as _lshape
                    return tuple(Poly.const(d) for d in _lshape(bv))
            if e.attr == "shape":
                return SHAPE
            if e.attr == "inf" and A.dotted(e) in ("np.inf", "math.inf", "numpy.inf", "jnp.inf", "torch.inf"):
                return Poly.atom("INF")
            if e.attr == "nan" and A.dotted(e) in ("np.nan", "math.nan", "numpy.nan", "jnp.nan", "torch.nan"):
                return Poly.atom("NAN")
            if e.attr == "pi" and A.dotted(e) in ("np.pi", "math.pi", "numpy.pi", "jnp.pi"):
                return Poly.atom("PI")
            if e.attr == "T":
                tv = self.eval(e.value)
                if self.externals.get("__elementwise__") and isinstance(tv, (list, tuple)) and tv and all(isinstance(r_, (list, tuple)) for r_ in tv):
                    return [list(col) for col in zip(*tv)]
                return tv
            raise Undecided(f"attribute {A.short(e, 40)}")
        if isinstance(e, ast.BinOp):
            return self.binop(e.op, self.eval(e.left), self.eval(e.right))
        if isinstance(e, ast.UnaryOp):
            v = self.eval(e.operand)
            if isinstance(e.op, ast.USub):
                if type(v).__name__ == "T":
                    from .listnp import arith as _arith2
                    return _arith2("*", v, Poly.const(-1))
                pv_ = to_poly(v)
                if pv_ == Poly.atom("INF"):
                    return Poly.atom("NEGINF")  # -math.inf IS float('-inf')
                if pv_ == Poly.atom("NEGINF"):
                    return Poly.atom("INF")
                return -pv_
            if isinstance(e.op, ast.UAdd):
                return v
            if isinstance(e.op, ast.Not):
                return not self.truth(v)
            raise Undecided("unary op")
        if isinstance(e, ast.BoolOp):
            if isinstance(e.op, ast.And):
                r = True
                for v in e.values:
                    r = self.eval(v)
                    if not self.truth(r):
                        return r
                return r
            r = False
            for v in e.values:
                r = self.eval(v)
                if self.truth(r):
                    return r
            return r
        if isinstance(e, ast.Compare):
            left = self.eval(e.left)
            for op, c in zip(e.ops, e.comparators):
                right = self.eval(c)
                same_cls_ = isinstance(left, str) and isinstance(right, str) and left.startswith("class:") and left == right  # type(a) is type(b)
                if isinstance(op, ast.Is):
                    ok = (left is right) or (left is None and right is None) or same_cls_
                elif isinstance(op, ast.IsNot):
                    ok = not ((left is right) or (left is None and right is None) or same_cls_)
                elif isinstance(op, (ast.In, ast.NotIn)):
                    keyed_ = isinstance(right, (dict, set))  # hashed containers of symbolic values: structural identity, as their lookups are
                    if isinstance(right, dict):
                        right = list(right.keys())
                    if isinstance(right, set):
                        right = list(right)
                    if not isinstance(right, (list, tuple, str)) and "__contains__" in self.externals:
                        try:
                            ok = bool(self.externals["__contains__"](right, left)) == isinstance(op, ast.In)
                            if not ok:
                                return False
                            left = right
                            continue
                        except NotHandled:
                            pass
                    if not isinstance(right, (list, tuple)):
                        raise Undecided("membership")
                    found_ = left in right
                    if not found_ and not keyed_ and isinstance(left, Poly) and self.region is not None and any(isinstance(x_, Poly) for x_ in right):
                        # numbers: `v in (lo, hi)` compares VALUES (decided at the region's representative point where it decides)
                        for x_ in right:
                            if isinstance(x_, Poly):
                                try:
                                    if self.compare(ast.Eq(), left, x_):
                                        found_ = True
                                        break
                                except Undecided:
                                    pass
                    ok = found_ == isinstance(op, ast.In)
                elif self.externals.get("__elementwise__") and (isinstance(left, list) or isinstance(right, list)) and len(e.ops) == 1 and not (type(left) is list and type(right) is list and isinstance(op, (ast.Eq, ast.NotEq))):
                    # (two PLAIN python lists compared with == / != are compared as python compares lists; tensors -- results of array
                    # operations -- compare elementwise)
                    from .listnp import elementwise_compare
                    return elementwise_compare(lambda x, y, op=op: (x == y) == isinstance(op, ast.Eq) if (isinstance(x, bool) and isinstance(y, bool) and isinstance(op, (ast.Eq, ast.NotEq))) else self.compare(op, x, y), left, right)
                else:
                    ok = self.compare(op, left, right)
                if not ok:
                    return False
                left = right
            return True
        if isinstance(e, ast.IfExp):
            return self.eval(e.body) if self.truth(self.eval(e.test)) else self.eval(e.orelse)
        if isinstance(e, (ast.List, ast.Tuple)):
            out = []
            for x in e.elts:
                if isinstance(x, ast.Starred):
                    v = self.eval(x.value)
                    if isinstance(v, dict):
                        v = list(v.keys())
                    if not isinstance(v, (list, tuple)):
                        raise Undecided("star of non-list")
                    out += list(v)
                else:
                    out.append(self.eval(x))
            return out if isinstance(e, ast.List) else tuple(out)
        if isinstance(e, (ast.ListComp, ast.GeneratorExp)):
            return self._comp(e.elt, e.generators)
        if isinstance(e, ast.SetComp):
            return set(self._comp(e.elt, e.generators))
        if isinstance(e, ast.DictComp):
            pairs = self._comp(ast.Tuple(elts=[e.key, e.value], ctx=ast.Load()), e.generators)
            return {k: v for k, v in pairs}
        if isinstance(e, ast.Set):
            return {self.eval(x) for x in e.elts}
        if isinstance(e, ast.Subscript):
            base = self.eval(e.value)
            if isinstance(base, HistSet):
                idx = e.slice
                if isinstance(idx, ast.Tuple) and len(idx.elts) >= 3 and isinstance(idx.elts[2], ast.Constant):
                    return base.slot(idx.elts[2].value)
                raise Undecided("histogram set indexing")
            if isinstance(base, list) and isinstance(e.slice, ast.Tuple):
                r_ = _nd_get(base, self._index_tuple(e.slice))
                if type(base).__name__ == "T" and isinstance(r_, list):
                    r_ = type(base)(r_)
                return r_
            if isinstance(e.slice, ast.Slice) or (isinstance(e.slice, ast.Tuple) and any(isinstance(x, ast.Slice) for x in e.slice.elts)):
                if isinstance(base, Poly):
                    return base
                if isinstance(base, (list, tuple)) and isinstance(e.slice, ast.Slice):
                    lo = None if e.slice.lower is None else self._int(e.slice.lower, 0)
                    hi = None if e.slice.upper is None else self._int(e.slice.upper, len(base))
                    st = None if e.slice.step is None else self._int(e.slice.step, 1)
                    r_ = list(base[lo:hi:st])
                    return type(base)(r_) if type(base).__name__ == "T" else r_
                raise Undecided("slicing")
            if isinstance(base, Obj) and "__getitem__" in self.externals:
                try:
                    return self.externals["__getitem__"](base, self.eval(e.slice))
                except NotHandled:
                    pass
            if isinstance(base, Obj):
                return Obj(f"{base.name}[{A.short(e.slice, 30)}]")
            if isinstance(base, Poly):
                return base  # element of an element-wise tensor
            idx = self.eval(e.slice)
            if isinstance(base, list) and isinstance(idx, list) and idx and all(isinstance(b, bool) for b in idx):
                return [x for x, b in zip(base, idx) if b]
            if isinstance(base, list) and isinstance(idx, list) and self.externals.get("__elementwise__"):
                # numpy integer-array indexing x[index_tensor]: the result has the index tensor's shape
                def take(ix):
                    if isinstance(ix, list):
                        return type(idx)([take(j) for j in ix]) if type(idx).__name__ == "T" else [take(j) for j in ix]
                    p_ = to_poly(ix)
                    if not (p_.is_const() and p_.const_value().denominator == 1):
                        raise Undecided("index tensor with a symbolic entry")
                    j_ = int(p_.const_value())
                    if not -len(base) <= j_ < len(base):
                        raise FragmentFault(f"index {j_} out of range for a tensor of length {len(base)}")
                    return base[j_]
                r_ = take(idx)
                if type(base).__name__ == "T" and type(r_).__name__ != "T" and isinstance(r_, list):
                    from .listnp import wrap as _wrap
                    r_ = _wrap(r_)  # indexing a tensor with a python list of positions gives a tensor
                return r_
            if isinstance(base, (list, tuple)) and isinstance(idx, Obj) and idx.name == "slice" and "stop" in idx.attrs:
                g_ = lambda x: None if x is None else int(to_poly(x).const_value())
                r_ = list(base[slice(g_(idx.attrs.get("start")), g_(idx.attrs.get("stop")), g_(idx.attrs.get("step")))])
                return type(base)(r_) if type(base).__name__ == "T" else r_
            if isinstance(base, (list, tuple)):
                i = int(to_poly(idx).const_value())
                if not -len(base) <= i < len(base) and type(base).__name__ != "T":
                    raise _PyRaise("IndexError")  # a python sequence indexed out of range: catchable by the interpreted code
                return base[i]
            if isinstance(base, dict):
                try:
                    if idx not in base and not hasattr(type(base), "__missing__"):
                        raise _PyRaise("KeyError")
                except TypeError:
                    raise _PyRaise("TypeError")  # unhashable key
                return base[idx]
            if isinstance(base, Poly):
                return base  # element of an element-wise tensor
            if base is SHAPE:
                return SHAPE
            raise Undecided("subscript")
        if isinstance(e, ast.Call):
            return self.call(e)
        if isinstance(e, ast.JoinedStr):
            parts = []
            for v in e.values:
                if isinstance(v, ast.Constant):
                    parts.append(str(v.value))
                    continue
                try:
                    x = self.eval(v.value)
                except Undecided:
                    return "<fstring>"
                if isinstance(x, str):
                    parts.append(x)
                elif isinstance(x, Poly) and x.is_const() and x.const_value().denominator == 1:
                    parts.append(str(int(x.const_value())))
                else:
                    return "<fstring>"
            return "".join(parts)
        if isinstance(e, ast.Lambda):
            return Closure(e, self)
        if isinstance(e, ast.Dict):
            out_ = {}
            for k, v in zip(e.keys, e.values):
                if k is None:  # {**mapping}
                    mv = self.eval(v)
                    if not isinstance(mv, dict):
                        raise Undecided("dict unpacking of a non-dict")
                    out_.update(mv)
                else:
                    out_[self.eval(k)] = self.eval(v)
            return out_
        if isinstance(e, ast.NamedExpr) and isinstance(e.target, ast.Name):
            v_ = self.eval(e.value)
            self.assign(e.target, v_)  # `(name := value)`: bound in the enclosing function's scope, value of the expression
            return v_
        raise Undecided(f"expression {type(e).__name__}")

    def _int(self, node, default):
        if node is None:
            return default
        return int(to_poly(self.eval(node)).const_value())

    def _comp(self, elt, gens):
        results = []

        def rec(i):
            if i == len(gens):
                results.append(self.eval(elt))
                return
            g = gens[i]
            it = self.iterable(self.eval(g.iter), "comprehension")
            for x in it:
                self.assign(g.target, x)
                if all(self.truth(self.eval(c)) for c in g.ifs):
                    rec(i + 1)

        saved = dict(self.env)
        rec(0)
        self.env = saved
        return results

    def iterable(self, v, what="iteration"):
        """The python list of the items `for x in v` would visit."""
        if isinstance(v, dict):
            return list(v.keys())
        if isinstance(v, (list, tuple)):
            return v
        if isinstance(v, (set, frozenset)):
            return sorted(v, key=lambda x: (type(x).__name__, str(x)))  # any fixed order: the fragment may not depend on it
        if isinstance(v, Obj) and "__iter__" in self.externals:
            try:
                return list(self.externals["__iter__"](v))
            except NotHandled:
                pass
        raise Undecided(f"{what} over a non-literal iterable")

    def eval_kwargs(self, keywords):
        """Keyword actuals with **mappings expanded (a ** of an opaque value is ignored, as before)."""
        out = {}
        for k in keywords:
            if k.arg is not None:
                out[k.arg] = self.eval(k.value)
            else:
                try:
                    v = self.eval(k.value)
                except Undecided:
                    continue
                if isinstance(v, dict):
                    for kk, vv in v.items():
                        if isinstance(kk, str):
                            out[kk] = vv
        return out

    def eval_args(self, args):
        """Positional actuals with *starred sequences expanded."""
        out = []
        for a in args:
            if isinstance(a, ast.Starred):
                v = self.eval(a.value)
                if isinstance(v, dict):
                    v = list(v.keys())
                if not isinstance(v, (list, tuple)):
                    raise Undecided("star of a non-list")
                out += list(v)
            else:
                out.append(self.eval(a))
        return out

    # -- calls -----------------------------------------------------------
    def call(self, e: ast.Call):
        f = e.func
        name = A.call_attr(e)
        native = False
        if name in self.externals and isinstance(f, ast.Attribute) and not (isinstance(f.value, ast.Name) and f.value.id in MODULE_NAMES):
            # x.add(...) on a python set / list / dict / str is the container's own method, not the array library's add()
            try:
                rv_ = self.eval(f.value)
                native = isinstance(rv_, (set, dict, str, tuple)) and hasattr(type(rv_), name) or (type(rv_) is list and hasattr(list, name))
            except Undecided:
                native = False
        own_method = isinstance(f, ast.Attribute) and isinstance(f.value, ast.Name) and f.value.id == "self" and f.attr in self.methods
        if name in self.externals and callable(self.externals[name]) and not native and not own_method:  # self.<method>() is the class's own method
            xa = self.eval_args(e.args)
            xk = self.eval_kwargs(e.keywords)
            try:
                return self.externals[name](xa, xk)
            except NotHandled:
                pass  # the model does not apply to this call shape (e.g. method form x.tolist())
        if isinstance(f, (ast.Call, ast.Subscript, ast.BoolOp, ast.IfExp, ast.Lambda)):
            callee = self.eval(f)
            xa = self.eval_args(e.args)
            xk = self.eval_kwargs(e.keywords)
            if isinstance(callee, PyFunc):
                return callee.f(xa, xk)
            if isinstance(callee, Closure):
                return self._call_closure(callee, xa, xk)
            if isinstance(callee, Obj) and isinstance(callee.attrs.get("__call__"), PyFunc):
                return callee.attrs["__call__"].f(xa, xk)
            if isinstance(callee, Obj) and "__call__" in self.externals:
                try:
                    return self.externals["__call__"](callee, xa, xk)
                except NotHandled:
                    pass
            raise Undecided("call of a computed callee")
        if isinstance(f, ast.Name) and isinstance(self.env.get(f.id), PyFunc):
            xa = self.eval_args(e.args)
            xk = self.eval_kwargs(e.keywords)
            return self.env[f.id].f(xa, xk)
        if isinstance(f, ast.Name) and isinstance(self.env.get(f.id), Obj) and isinstance(self.env[f.id].attrs.get("__call__"), PyFunc):
            return self.env[f.id].attrs["__call__"].f(self.eval_args(e.args), self.eval_kwargs(e.keywords))
        if isinstance(f, ast.Name) and isinstance(self.env.get(f.id), Obj) and "__call__" in self.externals:
            try:
                return self.externals["__call__"](self.env[f.id], self.eval_args(e.args), self.eval_kwargs(e.keywords))  # an instance of a class that defines __call__
            except NotHandled:
                pass
        if isinstance(f, ast.Attribute) and not (isinstance(f.value, ast.Name) and f.value.id in MODULE_NAMES):
            try:
                recv = self.eval(f.value)
            except RaisedInFragment:
                raise
            except Undecided:
                recv = None
            if "." + f.attr in self.externals and recv is not None:
                xa = self.eval_args(e.args)
                xk = self.eval_kwargs(e.keywords)
                try:
                    return self.externals["." + f.attr](recv, xa, xk)
                except NotHandled:
                    pass  # the model does not apply to this receiver: python's own semantics below
            if isinstance(recv, Obj) and isinstance(recv.attrs.get(f.attr), PyFunc):
                return recv.attrs[f.attr].f(self.eval_args(e.args), self.eval_kwargs(e.keywords))  # a modelled callable stored on the object
            if isinstance(recv, Obj) and ((recv.name == "functools" and f.attr in ("reduce", "partial")) or (recv.name == "itertools" and f.attr in ("accumulate", "count", "chain", "compress")) or (recv.name == "math" and f.attr == "prod") or (recv.name == "collections" and f.attr in ("ChainMap", "defaultdict")) or (recv.name == "types" and f.attr == "MappingProxyType")):
                pass  # the standard-library functions modelled below, whatever stands for the module in the scenario (also a function-level `import itertools`)
            elif isinstance(recv, Obj) and recv.name != "tensorlib":  # the backend stand-in's methods are the array functions below, whatever the local variable is called
                if recv.attrs.get("__strict_calls__"):
                    raise Undecided(f"call of {recv.name}.{f.attr}(...): not one of the functions of that module the scenario models")
                vals = self.eval_args(e.args)
                try:
                    xa = [to_poly(v) for v in vals]
                except Undecided:
                    return Obj(f"{recv.name}.{f.attr}(...)")  # opaque call on an opaque object with structured arguments
                return fn(f.attr, Poly.atom(recv.name), *xa)
            if isinstance(recv, (Poly, list)) and f.attr == "tobytes" and not e.args:
                flat_ = []

                def _fl(x_):
                    if isinstance(x_, (list, tuple)):
                        for y_ in x_:
                            _fl(y_)
                    else:
                        flat_.append(str(to_poly(x_)))
                _fl(recv)
                return ("bytes",) + tuple(flat_)  # the content by value: equal exactly when every entry is the same expression
            if isinstance(recv, (Poly, list)) and f.attr in ("detach", "numpy", "clone", "cpu", "item", "copy", "tolist", "astype", "flatten"):
                return recv
            if isinstance(recv, list) and f.attr == "sort":
                keyf = next((self.eval(k.value) for k in e.keywords if k.arg == "key"), None)
                rev = next((self.truth(self.eval(k.value)) for k in e.keywords if k.arg == "reverse"), False)

                def keyof(x):
                    if keyf is None:
                        v = x
                    elif isinstance(keyf, PyFunc):
                        v = keyf.f([x], {})
                    elif isinstance(keyf, Closure) and isinstance(keyf.node, ast.Lambda):
                        sub = Interp(self.env, self.selfattrs, self.region, self.methods, self.cls_name, externals=self.externals)
                        sub.env[keyf.node.args.args[0].arg] = x
                        v = sub.eval(keyf.node.body)
                    else:
                        raise Undecided("sort key")
                    if isinstance(v, str) or (isinstance(v, tuple) and all(isinstance(t, str) for t in v)):
                        return v
                    raise Undecided("sort key is not a string / tuple of strings")

                recv.sort(key=keyof, reverse=rev)
                return None
            if isinstance(recv, (set, list)) and f.attr in ("add", "pop", "append", "extend", "index", "count", "copy", "update", "discard", "remove", "insert", "clear", "reverse"):
                xs_ = [self.eval(a) for a in e.args]
                if isinstance(recv, list) and f.attr in ("insert", "pop") and xs_ and isinstance(xs_[0], Poly) and xs_[0].is_const() and xs_[0].const_value().denominator == 1:
                    xs_[0] = int(xs_[0].const_value())  # positions are python integers
                return getattr(recv, f.attr)(*xs_)
            if isinstance(recv, (set, frozenset)) and f.attr in ("union", "intersection", "difference", "symmetric_difference", "issubset", "issuperset", "isdisjoint"):
                others = []
                for a in e.args:
                    v = self.eval(a)
                    if isinstance(v, dict):
                        v = list(v.keys())
                    if not isinstance(v, (list, tuple, set, frozenset)):
                        raise Undecided(f"set.{f.attr} of a non-collection")
                    others.append(set(v))
                return getattr(recv, f.attr)(*others)
            if isinstance(recv, dict) and f.attr in ("update", "clear", "copy"):
                if f.attr == "update":
                    for a in e.args:
                        v = self.eval(a)
                        if isinstance(v, dict):
                            recv.update(v)
                        elif isinstance(v, (list, tuple)):
                            recv.update({k2: v2 for k2, v2 in v})
                        else:
                            raise Undecided("dict.update of a non-mapping")
                    for kwn in e.keywords:
                        if kwn.arg is not None:
                            recv[kwn.arg] = self.eval(kwn.value)
                    return None
                return recv.clear() if f.attr == "clear" else dict(recv)
            if isinstance(recv, dict) and f.attr == "setdefault":
                k = self.eval(e.args[0])
                if k not in recv:
                    recv[k] = self.eval(e.args[1]) if len(e.args) > 1 else None
                return recv[k]
            if isinstance(recv, str) and f.attr in ("split", "lower", "upper", "strip", "startswith", "endswith", "lstrip", "rstrip", "replace", "removeprefix", "removesuffix", "rsplit", "partition", "rpartition", "find", "rfind", "isdigit", "join", "title", "capitalize"):
                sargs_ = [self.eval(a) for a in e.args]
                sargs_ = [int(x.const_value()) if isinstance(x, Poly) and x.is_const() and x.const_value().denominator == 1 else x for x in sargs_]  # maxsplit, positions
                return getattr(recv, f.attr)(*sargs_)
            if isinstance(recv, dict) and f.attr in ("items", "keys", "values"):
                return [tuple(kv) for kv in recv.items()] if f.attr == "items" else (list(recv.keys()) if f.attr == "keys" else list(recv.values()))
            if isinstance(recv, dict) and f.attr in ("get", "pop", "setdefault"):
                k = self.eval(e.args[0])
                if k in recv:
                    return recv.pop(k) if f.attr == "pop" else recv[k]
                if f.attr == "pop" and len(e.args) < 2:
                    raise _PyRaise("KeyError")
                return self.eval(e.args[1]) if len(e.args) > 1 else None
        # super().method(...)
        if isinstance(f, ast.Attribute) and isinstance(f.value, ast.Call) and isinstance(f.value.func, ast.Name) and f.value.func.id == "super" and "__super__" in self.externals:
            return self.externals["__super__"](self.cls_name, f.attr, self.env.get("self"), self.eval_args(e.args), self.eval_kwargs(e.keywords))
        # a callable object stored in an attribute of self (an interpolator, a recorded function ...)
        if isinstance(f, ast.Attribute) and isinstance(f.value, ast.Name) and f.value.id == "self" and f.attr not in self.methods:
            target = self.selfattrs.get(self._mangle(f.attr))
            if isinstance(target, PyFunc):
                return target.f(self.eval_args(e.args), self.eval_kwargs(e.keywords))
            if isinstance(target, Obj) and "__call__" in self.externals:
                try:
                    return self.externals["__call__"](target, self.eval_args(e.args), self.eval_kwargs(e.keywords))
                except NotHandled:
                    pass
            if target is None and "." + f.attr in self.externals and self.env.get("self") is not None and not isinstance(self.env.get("self"), (Poly, list, dict, str)):
                # a method the object inherits from a base outside the package (dict.get on a dict subclass ...)
                try:
                    return self.externals["." + f.attr](self.env["self"], self.eval_args(e.args), self.eval_kwargs(e.keywords))
                except NotHandled:
                    pass
        # closures and inlined methods
        if isinstance(f, ast.Name) and isinstance(self.env.get(f.id), Closure):
            clo = self.env[f.id]
            args = self.eval_args(e.args)
            kwargs = self.eval_kwargs(e.keywords)
            return self._call_closure(clo, args, kwargs)
        if isinstance(f, ast.Attribute) and isinstance(f.value, ast.Name) and f.value.id == "self" and isinstance(self.selfattrs.get(self._mangle(name)), (PyFunc, Closure)):
            callee = self.selfattrs[self._mangle(name)]
            xa = self.eval_args(e.args)
            xk = self.eval_kwargs(e.keywords)
            return callee.f(xa, xk) if isinstance(callee, PyFunc) else self.call_function(callee.node, xa, xk)
        if isinstance(f, ast.Attribute) and isinstance(f.value, ast.Name) and f.value.id == "self" and name in self.methods:
            args = self.eval_args(e.args)
            kwargs = self.eval_kwargs(e.keywords)
            return self.call_function(self.methods[name], args, kwargs, bind_self=True)
        args = e.args
        kw = {k.arg: k.value for k in e.keywords if k.arg}
        ev = self.eval
        if name == "deepcopy" and args:
            return _deepcopy_value(ev(args[0]))
        if name == "partial" and "partial" not in self.env and args and A.dotted(f) in ("functools.partial", "partial"):
            tgt_ = args[0]
            tn_ = (A.dotted(tgt_) or "").split(".")[-1]
            if tn_ and callable(self.externals.get(tn_)) and not (isinstance(tgt_, ast.Name) and tgt_.id in self.env):
                under_ = PyFunc(lambda a, k, g_=self.externals[tn_]: g_(a, k), tn_)  # a modelled library function, however it is qualified
            else:
                under_ = ev(tgt_)
            pa_, pk_ = self.eval_args(args[1:]), self.eval_kwargs(e.keywords)
            if isinstance(under_, PyFunc):
                return PyFunc(lambda a, k, u_=under_: u_.f(list(pa_) + list(a), {**pk_, **k}), f"partial({under_.name if hasattr(under_, 'name') else tn_})")
            if isinstance(under_, Closure):
                return PyFunc(lambda a, k, u_=under_: self._call_closure(u_, list(pa_) + list(a), {**pk_, **k}), "partial(closure)")
            raise Undecided("functools.partial of an unmodelled callable")
        if name == "compress" and "compress" not in self.env and len(args) == 2 and A.dotted(f) in ("itertools.compress", "compress"):
            d_, s_ = self.iterable(ev(args[0]), "compress"), self.iterable(ev(args[1]), "compress")
            return [x_ for x_, y_ in zip(d_, s_) if self.truth(y_)]
        if name == "fromkeys" and isinstance(f, ast.Attribute) and isinstance(f.value, ast.Name) and f.value.id == "dict" and "dict" not in self.env and 1 <= len(args) <= 2:
            val_ = ev(args[1]) if len(args) > 1 else None
            return {k_: val_ for k_ in self.iterable(ev(args[0]), "dict.fromkeys")}
        if name == "linspace" and (A.dotted(f) or "").split(".")[0] in ("np", "numpy") and 2 <= len(args) <= 3 and not (set(kw) - {"num"}):
            lo_, hi_ = to_poly(ev(args[0])), to_poly(ev(args[1]))
            num_ = to_poly(ev(args[2] if len(args) > 2 else kw["num"])) if (len(args) > 2 or "num" in kw) else Poly.const(50)
            if not (num_.is_const() and num_.const_value().denominator == 1 and 0 <= num_.const_value() <= 4096):
                raise Undecided("linspace with a symbolic number of points")
            n_ = int(num_.const_value())
            pts_ = [lo_ + (hi_ - lo_) * Poly.const(Fraction(i_, n_ - 1)) for i_ in range(n_)] if n_ > 1 else [lo_][:n_]
            if self.externals.get("__elementwise__"):
                from .listnp import wrap as _wrap2
                return _wrap2(pts_)
            return pts_
        if name == "namedtuple" and "namedtuple" not in self.env and len(args) >= 2:
            import collections as _c
            tn_, fl_ = ev(args[0]), ev(args[1])
            if isinstance(tn_, str) and (isinstance(fl_, str) or (isinstance(fl_, (list, tuple)) and all(isinstance(x_, str) for x_ in fl_))):
                nt_ = _c.namedtuple(tn_, fl_)
                return PyFunc(lambda a, k, nt_=nt_: nt_(*a, **k), tn_)
            raise Undecided("namedtuple with computed field names")
        if name == "defaultdict" and "defaultdict" not in self.env and len(args) <= 1 and not kw:
            fac_ = args[0].id if args and isinstance(args[0], ast.Name) and args[0].id in ("list", "dict", "set", "int") and args[0].id not in self.env else (None if not args or (isinstance(args[0], ast.Constant) and args[0].value is None) else "?")
            if fac_ == "?":
                raise Undecided("defaultdict with a factory other than list / dict / set / int")
            return _DefaultDict(fac_)
        if name == "ChainMap" and "ChainMap" not in self.env and not kw:
            maps_ = [ev(a_) for a_ in args]
            if all(isinstance(m_, dict) for m_ in maps_):
                return _ChainMap(*maps_)
            raise Undecided("ChainMap over something that is not a mapping")
        if name == "MappingProxyType" and len(args) == 1:
            return ev(args[0])  # a read-only view: reads see the mapping itself
        if name in ELEMENTWISE_IDENTITY:
            if not args:
                raise Undecided(f"{name}()")
            v = ev(args[0])
            if name in ("transpose", "squeeze", "expand_dims", "broadcast_to", "tile", "reshape", "ravel") and self.externals.get("__elementwise__") and isinstance(v, (list, tuple)):
                raise Undecided(f"{name} of a list tensor is not modelled for these arguments")  # shapes matter in this scenario: not the identity
            if name == "float" and isinstance(v, str):
                return to_poly(float(v))
            return v
        if name in ("ones", "ones_like"):
            return Poly.const(1)
        if name in ("zeros", "zeros_like"):
            return Poly.const(0)
        if name in ("power", "pow"):
            return fn("pow", to_poly(ev(args[0])), to_poly(ev(args[1])))
        if name in ("divide", "true_divide", "div"):
            kwn = {k.arg: k.value for k in e.keywords if k.arg}
            if "where" in kwn:
                # numpy semantics: result = a / b where the condition holds, the `out` array elsewhere
                cond = ev(kwn["where"])
                if not self.truth(cond):
                    if "out" not in kwn:
                        raise Undecided("divide(where=...) without out=: uninitialised result")
                    return to_poly(ev(kwn["out"]))
            return to_poly(ev(args[0])) / to_poly(ev(args[1]))
        if name in ("multiply", "mul"):
            return to_poly(ev(args[0])) * to_poly(ev(args[1]))
        if name == "add":
            return to_poly(ev(args[0])) + to_poly(ev(args[1]))
        if name in ("subtract", "sub"):
            return to_poly(ev(args[0])) - to_poly(ev(args[1]))
        if name == "square":
            v = to_poly(ev(args[0]))
            return v * v
        if name in ("abs", "absolute", "fabs"):
            v = to_poly(ev(args[0]))
            try:
                s = v.evalf(self.region)
            except Undecided:
                return fn("abs", v)
            return v if s >= 0 else -v
        if name == "where":
            c = ev(args[0])
            if isinstance(c, Poly) and c.is_const():
                c = c.const_value() != 0
            if not isinstance(c, bool):
                raise Undecided("where() on an undecided mask")
            return ev(args[1]) if c else ev(args[2])
        if name == "conditional":
            c = self.truth(ev(args[0]))
            clo = ev(args[1] if c else args[2])
            if isinstance(clo, Closure):
                return self.call_function(clo.node, [], {})
            raise Undecided("conditional branches are not closures")
        if name in ("stack", "concatenate"):
            v = ev(args[0])
            if isinstance(v, (list, tuple)):
                return list(v)
            raise Undecided(name)
        if name == "sum":
            v = ev(args[0])
            if isinstance(v, (list, tuple)):
                tot = Poly()
                if isinstance(f, ast.Name) and (len(args) > 1 or "start" in kw):
                    tot = ev(args[1] if len(args) > 1 else kw["start"])  # builtin sum(iterable, start)
                    if not isinstance(tot, Poly):
                        raise Undecided("sum() with a start value that is not a number")
                for x in v:
                    tot = tot + to_poly(x)
                return tot
            if isinstance(v, Poly) and "axis" in kw:
                return fn("sum", v, to_poly(ev(kw["axis"])) if ev(kw["axis"]) is not None else Poly.atom("NONE"))
            raise Undecided("sum over a data axis")
        if name == "product" or name == "prod":
            v = ev(args[0])
            if isinstance(v, (list, tuple)):
                tot = Poly.const(1)
                for x in v:
                    tot = tot * to_poly(x)
                return tot
            if isinstance(v, Poly) and "axis" in kw:
                return fn("product", v, to_poly(ev(kw["axis"])) if ev(kw["axis"]) is not None else Poly.atom("NONE"))
            raise Undecided("product over a data axis")
        if name == "einsum":
            spec = ev(args[0])
            ops = [ev(a) for a in args[1:]]
            return einsum(spec, ops)
        if name == "clip":
            x = to_poly(ev(args[0]))
            lo = ev(args[1]) if len(args) > 1 else (ev(kw["min_value"]) if "min_value" in kw else None)
            hi = ev(args[2]) if len(args) > 2 else (ev(kw["max_value"]) if "max_value" in kw else None)
            _b = lambda v_: Poly.atom("NONE") if v_ is None else (Poly.atom("VEC<" + ",".join(str(to_poly(y_)) for y_ in v_) + ">") if isinstance(v_, (list, tuple)) else to_poly(v_))  # per-component bounds
            return fn("clip", x, _b(lo), _b(hi))
        if name in OPAQUE_FNS:
            return fn(name if name != "lgamma" else "gammaln", *[to_poly(ev(a)) for a in args])
        if name == "shape":
            return SHAPE
        if name == "get_backend":
            return (MODULE, MODULE)
        if name == "range":
            vals = [int(to_poly(ev(a)).const_value()) for a in args]
            return [Poly.const(i) for i in range(*vals)]
        if name == "zip":
            seqs = [self.iterable(x, "zip") for x in self.eval_args(args)]
            return [tuple(x) for x in zip(*seqs)]
        if name == "map" and isinstance(f, ast.Name) and len(args) >= 2:
            seqs = [self.iterable(ev(x), "map") for x in args[1:]]
            fnode = args[0]
            out_ = []
            for tup in zip(*seqs):
                if isinstance(fnode, ast.Name) and fnode.id in ("list", "tuple") and fnode.id not in self.env:
                    it_ = self.iterable(tup[0], "map")
                    out_.append(list(it_) if fnode.id == "list" else tuple(it_))
                    continue
                if isinstance(fnode, ast.Name) and fnode.id == "len" and "len" not in self.env:
                    if not isinstance(tup[0], (str, list, tuple, dict, set)):
                        raise Undecided("len of a tensor")
                    out_.append(Poly.const(len(tup[0])))
                    continue
                if isinstance(fnode, ast.Name) and fnode.id in ("float", "int", "str") and fnode.id not in self.env:
                    out_.append(tup[0] if fnode.id != "str" else str(tup[0]))
                    continue
                callee = ev(fnode)
                if isinstance(callee, PyFunc):
                    out_.append(callee.f(list(tup), {}))
                elif isinstance(callee, Closure):
                    out_.append(self._call_closure(callee, list(tup), {}))
                else:
                    raise Undecided("map() of an unmodelled callable")
            return out_
        if name == "accumulate" and args and (isinstance(f, ast.Name) or A.dotted(f) == "itertools.accumulate") and "accumulate" not in self.env:
            seq = list(self.iterable(ev(args[0]), "accumulate"))
            opn = args[1] if len(args) > 1 else kw.get("func")
            if "initial" in kw and ev(kw["initial"]) is not None:
                seq = [ev(kw["initial"])] + seq
            out_, acc = [], None
            for i_, x_ in enumerate(seq):
                if i_ == 0:
                    acc = x_
                elif opn is None or (A.dotted(opn) or "") in ("operator.add", "add"):
                    acc = self.binop(ast.Add(), acc, x_)
                elif (A.dotted(opn) or "") in ("operator.mul", "mul"):
                    acc = self.binop(ast.Mult(), acc, x_)
                else:
                    callee = ev(opn)
                    acc = callee.f([acc, x_], {}) if isinstance(callee, PyFunc) else self._call_closure(callee, [acc, x_], {}) if isinstance(callee, Closure) else None
                    if acc is None:
                        raise Undecided("accumulate with an unmodelled function")
                out_.append(acc)
            return out_
        if name == "prod" and args and A.dotted(f) in ("math.prod", "prod") and "prod" not in self.env:
            acc = ev(kw["start"]) if "start" in kw else Poly.const(1)
            for x_ in self.iterable(ev(args[0]), "math.prod"):
                acc = self.binop(ast.Mult(), acc, x_)
            return acc
        if name == "count" and A.dotted(f) in ("itertools.count", "count") and "count" not in self.env and len(args) <= 2 and not kw:
            st_ = to_poly(ev(args[0])) if args else Poly.const(0)
            dl_ = to_poly(ev(args[1])) if len(args) > 1 else Poly.const(1)
            return [st_ + dl_ * Poly.const(i_) for i_ in range(2048)]  # only ever consumed through zip(), which stops at the shortest
        if name in ("chain", "from_iterable") and A.dotted(f) in ("itertools.chain", "chain", "itertools.chain.from_iterable", "chain.from_iterable") and "chain" not in self.env:
            parts_ = self.iterable(ev(args[0]), "chain") if name == "from_iterable" else self.eval_args(args)
            out_ = []
            for p_ in parts_:
                out_.extend(self.iterable(p_, "chain"))
            return out_
        if name == "enumerate":
            s = ev(args[0])
            if not isinstance(s, (list, tuple)):
                raise Undecided("enumerate")
            st_ = to_poly(ev(args[1] if len(args) > 1 else kw["start"])) if (len(args) > 1 or "start" in kw) else Poly.const(0)
            if set(kw) - {"start"}:
                raise Undecided("enumerate with an unknown keyword")
            return [(st_ + Poly.const(i), x) for i, x in enumerate(s)]
        if name == "len":
            s = ev(args[0])
            if isinstance(s, Obj) and "__len__" in self.externals:
                n_ = self.externals["__len__"](s)
                if n_ is not None:
                    return Poly.const(n_)
            if isinstance(s, (list, tuple, set, dict, str)):
                return Poly.const(len(s))
            raise Undecided("len of a tensor")
        if name in ("list", "tuple"):
            s = ev(args[0]) if args else []
            if isinstance(s, dict):
                s = list(s.keys())
            if isinstance(s, set):
                s = sorted(s, key=str)
            if isinstance(s, (list, tuple)):
                return list(s) if name == "list" else tuple(s)
            raise Undecided("list()")
        if name == "setattr" and isinstance(f, ast.Name) and len(args) == 3:
            o, nm, val = ev(args[0]), ev(args[1]), ev(args[2])
            if not isinstance(nm, str):
                raise Undecided("setattr with a symbolic attribute name")
            if isinstance(args[0], ast.Name) and args[0].id == "self" and o is self.env.get("self"):
                self.selfattrs[self._mangle(nm)] = val  # the same store `self.<nm> = val` writes
                return None
            if isinstance(o, Obj):
                o.attrs[nm] = val
                return None
            raise Undecided("setattr on an unmodelled object")
        if name == "getattr" and isinstance(f, ast.Name) and len(args) >= 2 and isinstance(args[0], ast.Name) and args[0].id == "self" and "self" not in self.env:
            nm = ev(args[1])
            if isinstance(nm, str):  # the object under interpretation is kept as its attribute table
                if self._mangle(nm) in self.selfattrs:
                    return self.selfattrs[self._mangle(nm)]
                if len(args) > 2:
                    return ev(args[2])
                raise _PyRaise("AttributeError")
        if name == "getattr" and isinstance(f, ast.Name) and len(args) >= 2:
            o, nm = ev(args[0]), ev(args[1])
            if isinstance(o, Obj) and isinstance(nm, str):
                if nm in o.attrs:
                    return o.attrs[nm]
                if "__getattr__" in self.externals:
                    try:
                        return self.externals["__getattr__"](o, nm)  # properties / class attributes of a modelled object
                    except NotHandled:
                        pass
                    except _PyRaise as pr_:
                        if pr_.exc != "AttributeError" or len(args) <= 2:
                            raise
                if len(args) > 2:
                    return ev(args[2])
                return Obj(f"{o.name}.{nm}")
            if isinstance(o, tuple) and isinstance(nm, str) and nm in getattr(o, "_fields", ()):
                return getattr(o, nm)
            if isinstance(o, dict) and getattr(o, "_record", False) and isinstance(nm, str) and nm in o:
                return o[nm]
            raise Undecided("getattr")
        if name == "bool":
            return self.truth(ev(args[0]))
        if name == "reduce" and len(args) >= 2 and (A.dotted(args[0]) or "") in ("operator.add", "add", "operator.mul", "mul", "operator.or_", "operator.and_", "operator.iadd", "iadd"):
            # functools.reduce: with ONE element the element itself is returned (no new object), exactly as in python
            seq = list(self.iterable(ev(args[1]), "reduce"))
            if len(args) > 2:
                seq = [ev(args[2])] + seq
            if not seq:
                raise _PyRaise("TypeError")
            opname_ = (A.dotted(args[0]) or "").split(".")[-1]
            op_ = {"add": ast.Add(), "iadd": ast.Add(), "mul": ast.Mult(), "or_": ast.BitOr(), "and_": ast.BitAnd()}[opname_]
            acc = seq[0]
            for x_ in seq[1:]:
                if opname_ == "iadd" and type(acc) is list and isinstance(x_, (list, tuple)):
                    acc.extend(x_)  # in place, as `acc += x` on a list: the FIRST operand object is the accumulator
                else:
                    acc = self.binop(op_, acc, x_)
            return acc
        if name == "round" and isinstance(f, ast.Name) and "round" not in self.env and args:
            v = to_poly(ev(args[0]))
            nd_ = to_poly(ev(args[1])) if len(args) > 1 else None
            if v.is_const():
                r_ = round(v.const_value(), int(nd_.const_value())) if nd_ is not None else round(v.const_value())
                return to_poly(r_)
            return fn("round", v, nd_ if nd_ is not None else Poly.atom("NONE"))  # NOT the value itself
        if name in ("WeakKeyDictionary", "WeakValueDictionary", "OrderedDict") and not args and not e.keywords:
            return {}  # within one interpreted scenario every key / value stays alive
        if name == "WeakSet" and not args:
            return set()
        if name == "str" and isinstance(f, ast.Name) and "str" not in self.env and len(args) == 1:
            v = ev(args[0])
            if isinstance(v, str):
                return v
            if isinstance(v, Poly) and v.is_const() and v.const_value().denominator == 1:
                return str(int(v.const_value()))
            if v is None or isinstance(v, bool):
                return str(v)
            raise Undecided("str() of a symbolic value")
        if name == "type" and isinstance(f, ast.Name) and "type" not in self.env and len(args) == 1:
            v = ev(args[0])
            if isinstance(v, Obj) and "__class__" in v.attrs:
                return v.attrs["__class__"]
            if isinstance(v, Obj) and getattr(v, "cls", None) is not None:
                return "class:" + v.cls.name  # an instance of a modelled class: classes compare by name (`type(a) is type(b)`)
            raise Undecided("type() of an object without a modelled class")
        if name == "dict" and isinstance(f, ast.Name):
            d = dict(ev(args[0])) if args else {}
            for kwn in e.keywords:
                if kwn.arg is None:
                    extra = ev(kwn.value)
                    if not isinstance(extra, dict):
                        raise Undecided("dict(**non-dict)")
                    d.update(extra)
                else:
                    d[kwn.arg] = ev(kwn.value)
            return d
        if name == "gather":
            src, idx = ev(args[0]), ev(args[1])
            if isinstance(src, (list, tuple)) and isinstance(idx, (list, tuple)):
                return [src[int(to_poly(i).const_value())] for i in idx]
            return fn("gather", to_poly(src), to_poly(idx))
        if name == "isinstance" and len(args) == 2:
            v = ev(args[0])
            tn = A.dotted(args[1])
            names = [A.dotted(x) for x in args[1].elts] if isinstance(args[1], ast.Tuple) else [tn]
            pyt = {"tuple": tuple, "list": list, "dict": dict, "str": str, "bool": bool, "set": set}
            pyt.update({"int": int, "float": float, "bytes": bytes})
            if all(n in pyt for n in names) and (v is None or isinstance(v, (Obj, PyFunc, Closure))):
                return False
            if all(n in pyt for n in names) and isinstance(v, (tuple, list, dict, str, bool, set)):
                return any(isinstance(v, pyt[n]) for n in names)
            if all(n in pyt for n in names) and isinstance(v, Poly) and not ({"int", "float"} & set(names)):
                return False
            if "__isinstance__" in self.externals and not any(n in pyt for n in names):
                try:
                    return self.externals["__isinstance__"](v, ev(args[1]))
                except NotHandled:
                    pass
            raise Undecided("isinstance")
        if name == "filter" and isinstance(f, ast.Name) and len(args) == 2:
            pred, seq = ev(args[0]), ev(args[1])
            if isinstance(seq, (list, tuple)):
                out = []
                for x in seq:
                    if pred is None:
                        keep = self.truth(x)
                    elif isinstance(pred, Closure) and isinstance(pred.node, ast.Lambda):
                        sub = Interp(self.env, self.selfattrs, self.region, self.methods, self.cls_name, externals=self.externals)
                        sub.env[pred.node.args.args[0].arg] = x
                        keep = self.truth(sub.eval(pred.node.body))
                    elif isinstance(pred, PyFunc):
                        keep = self.truth(pred.f([x], {}))
                    else:
                        raise Undecided("filter predicate")
                    if keep:
                        out.append(x)
                return out
            raise Undecided("filter over a non-list")
        if name in ("int", "float") and isinstance(f, ast.Name) and len(args) == 1:
            v = ev(args[0])
            if isinstance(v, str):
                try:
                    return Poly.const(int(v)) if name == "int" else to_poly(float(v))
                except ValueError:
                    raise _PyRaise("ValueError")
            if isinstance(v, bool):
                return Poly.const(int(v))
            if isinstance(v, Poly):
                if name == "float" or (v.is_const() and v.const_value().denominator == 1):
                    return v
                if v.is_const():
                    return Poly.const(int(v.const_value()))
            raise Undecided(f"{name}() of a symbolic value")
        if name in ("itemgetter", "attrgetter") and args and (isinstance(f, ast.Name) or A.dotted(f) in ("operator.itemgetter", "operator.attrgetter")):
            keys_ = [ev(a) for a in args]

            def getter(a_, k_, keys_=keys_, kind=name):
                def one(obj, key):
                    if kind == "attrgetter":
                        if isinstance(obj, Obj) and key in obj.attrs:
                            return obj.attrs[key]
                        raise Undecided("attrgetter on an unmodelled object")
                    if isinstance(obj, dict):
                        if key not in obj:
                            raise _PyRaise("KeyError")
                        return obj[key]
                    if isinstance(obj, (list, tuple)):
                        return obj[int(to_poly(key).const_value())]
                    raise Undecided("itemgetter on an unmodelled object")
                vals = [one(a_[0], k2) for k2 in keys_]
                return vals[0] if len(vals) == 1 else tuple(vals)

            return PyFunc(getter, name)
        if name == "slice" and isinstance(f, ast.Name) and 1 <= len(args) <= 3:
            vs = [ev(a) for a in args]
            if len(vs) == 1:
                return Obj("slice", {"start": None, "stop": vs[0], "step": None})
            return Obj("slice", {"start": vs[0], "stop": vs[1], "step": vs[2] if len(vs) > 2 else None})
        if name in ("min", "max") and isinstance(f, ast.Name) and args and "key" not in kw:
            vals = [ev(a) for a in args]
            if len(vals) == 1:
                vals = list(self.iterable(vals[0], name))
            if not vals:
                raise _PyRaise("ValueError")
            best = vals[0]
            for v in vals[1:]:
                # decided like any other comparison: exactly, or at the region's representative point
                if self.compare(ast.Lt() if name == "min" else ast.Gt(), v, best):
                    best = v
            return best
        if name == "repr" and isinstance(f, ast.Name) and len(args) == 1:
            def _r(v):
                if isinstance(v, str):
                    return repr(v)
                if isinstance(v, bool) or v is None:
                    return repr(v)
                if isinstance(v, Poly):
                    return str(v)
                if isinstance(v, Obj):
                    return f"<{v.name}>"
                if isinstance(v, tuple):
                    return "(" + ", ".join(_r(x) for x in v) + ("," if len(v) == 1 else "") + ")"
                if isinstance(v, list):
                    return "[" + ", ".join(_r(x) for x in v) + "]"
                if isinstance(v, dict):
                    return "{" + ", ".join(f"{_r(k)}: {_r(x)}" for k, x in v.items()) + "}"
                raise Undecided("repr of an unmodelled value")
            return _r(ev(args[0]))
        if name == "next" and isinstance(f, ast.Name) and args:
            seq = self.iterable(ev(args[0]), "next")
            if seq:
                return seq[0]
            if len(args) > 1:
                return ev(args[1])
            raise _PyRaise("StopIteration")
        if name == "id" and isinstance(f, ast.Name) and len(args) == 1:
            return Poly.const(id(ev(args[0])))
        if name in ("any", "all") and isinstance(f, ast.Name) and args:
            seq = ev(args[0])
            if isinstance(seq, (list, tuple)):
                vals = [self.truth(x) for x in seq]
                return any(vals) if name == "any" else all(vals)
            raise Undecided(f"{name} of a non-list")
        if name == "reversed" and isinstance(f, ast.Name) and args:
            seq = ev(args[0])
            if isinstance(seq, (list, tuple)):
                return list(reversed(seq))
            raise Undecided("reversed of a non-list")
        if name == "sorted" and isinstance(f, ast.Name) and args:
            seq = ev(args[0])
            if isinstance(seq, (dict, set)):
                seq = list(seq)
            if isinstance(seq, (list, tuple)) and all(isinstance(x, str) for x in seq) and "key" not in kw:
                rev = self.truth(ev(kw["reverse"])) if "reverse" in kw else False
                return sorted(seq, reverse=rev)
            if isinstance(seq, (list, tuple)):
                rev = self.truth(ev(kw["reverse"])) if "reverse" in kw else False
                keyf = None
                if "key" in kw:
                    if isinstance(kw["key"], ast.Name) and kw["key"].id in ("str", "repr") and kw["key"].id not in self.env:
                        keyf = PyFunc(lambda a, k: str(a[0]) if isinstance(a[0], str) else str(to_poly(a[0])), "str")
                    else:
                        keyf = ev(kw["key"])

                def concrete(v):
                    if isinstance(v, str):
                        return (0, v)
                    if isinstance(v, bool):
                        return (1, Fraction(int(v)))
                    if isinstance(v, Poly) and v.is_const():
                        return (1, v.const_value())
                    if isinstance(v, Poly) and (not isinstance(self.region, AutoRegion) or all(dict.__contains__(self.region, a_) for a_ in plain_atoms(v))):
                        try:
                            return (1, v.evalf(self.region))  # symbolic numbers with explicit representatives order by them
                        except Undecided:
                            pass
                    if isinstance(v, (tuple, list)):
                        parts = []
                        for i_, x in enumerate(v):
                            try:
                                parts.append(concrete(x))
                            except Undecided:
                                if i_ == 0:
                                    raise
                                parts.append((3, ""))  # later components only break ties between equal leading keys
                        return (2, tuple(parts))
                    raise Undecided("sorted: key is not a concrete string / number / tuple of these")

                def keyof(x):
                    if keyf is None:
                        return concrete(x)
                    if isinstance(keyf, PyFunc):
                        return concrete(keyf.f([x], {}))
                    if isinstance(keyf, Closure) and isinstance(keyf.node, ast.Lambda):
                        sub = Interp(self.env, self.selfattrs, self.region, self.methods, self.cls_name, externals=self.externals)
                        sub.env.update(keyf.interp.env if hasattr(keyf, "interp") and keyf.interp is not self else {})
                        sub.env[keyf.node.args.args[0].arg] = x
                        return concrete(sub.eval(keyf.node.body))
                    raise Undecided("sorted key")

                return sorted(seq, key=keyof, reverse=rev)
            raise Undecided("sorted of non-strings")
        if name == "set" and isinstance(f, ast.Name):
            return set(ev(args[0])) if args else set()
        if isinstance(f, ast.Name) and f.id not in self.env:
            hv = self._home_name(f)
            if isinstance(hv, Closure):
                return self._call_closure(hv, self.eval_args(e.args), self.eval_kwargs(e.keywords))
            if isinstance(hv, PyFunc):
                return hv.f(self.eval_args(e.args), self.eval_kwargs(e.keywords))
        if isinstance(f, ast.Attribute) and isinstance(f.value, ast.Name) and f.value.id == "self" and f.attr not in self.methods and self._mangle(f.attr) not in self.selfattrs:
            mn = self._home_method(e, f.attr)
            if mn is not None:
                return self.call_function(mn, self.eval_args(e.args), self.eval_kwargs(e.keywords), bind_self=True)
        raise Undecided(f"call {A.short(e.func, 40)}")


def _nd_get(base, idx):
    """numpy-style indexing of a nested python list with a tuple of ints / full slices / bool masks."""
    if not idx:
        return base
    i, rest = idx[0], idx[1:]
    if isinstance(i, slice):
        if i == slice(None, None, None):
            return [_nd_get(x, rest) for x in base]
        return [_nd_get(x, rest) for x in base[i]]
    if isinstance(i, list) and i and all(isinstance(b, bool) for b in i):
        return [_nd_get(x, rest) for x, b in zip(base, i) if b]
    return _nd_get(base[i], rest)


def _nd_set(base, idx, value):
    i, rest = idx[0], idx[1:]
    if rest:
        if isinstance(i, slice):
            rows = base[i]
            if isinstance(value, (list, tuple)) and value and all(isinstance(v_, (list, tuple)) for v_ in value):
                # a 2-D right-hand side: one row of it per selected row (numpy: x[:, mask] = rows)
                if len(value) != len(rows):
                    if len(value) == 1:
                        value = list(value) * len(rows)
                    else:
                        raise Undecided("row-wise assignment of a different number of rows")
                for x, v_ in zip(rows, value):
                    _nd_set(x, rest, v_)
                return
            for x in rows:
                _nd_set(x, rest, value)
        else:
            _nd_set(base[i], rest, value)
        return
    if isinstance(i, slice):
        lo, hi, st = i.indices(len(base))
        pos = list(range(lo, hi, st))
        vals = value if isinstance(value, (list, tuple)) else [value] * len(pos)
        if len(vals) != len(pos):
            raise Undecided("slice assignment of a different length")
        for p_, v_ in zip(pos, vals):
            base[p_] = v_
    elif isinstance(i, list) and all(isinstance(b, bool) for b in i):
        pos = [k for k, b in enumerate(i) if b]
        vals = value if isinstance(value, (list, tuple)) else [value] * len(pos)
        if len(vals) != len(pos):
            raise Undecided("boolean-mask assignment of a different length")
        for p_, v_ in zip(pos, vals):
            base[p_] = v_
    else:
        base[i] = value


def _deepcopy_value(v):
    if isinstance(v, list):
        return [_deepcopy_value(x) for x in v]
    if isinstance(v, tuple):
        return tuple(_deepcopy_value(x) for x in v)
    if isinstance(v, dict):
        return {k: _deepcopy_value(x) for k, x in v.items()}
    if isinstance(v, set):
        return set(v)
    return v


def _as_load(t):
    import copy
    t2 = copy.deepcopy(t)
    for n in ast.walk(t2):
        if hasattr(n, "ctx"):
            n.ctx = ast.Load()
    return t2


def einsum(spec, ops):
    """einsum over values whose leading axes may be explicit python lists and whose
    remaining axes are implicit (element-wise, a Poly stands for every element)."""
    if not isinstance(spec, str):
        raise Undecided("einsum spec")
    spec = spec.replace(" ", "")
    if "..." in spec:
        # pure axis permutations with ellipsis: element-wise identity
        ins, out = spec.split("->")
        if "," not in ins and sorted(ins.replace("...", "")) == sorted(out.replace("...", "")):
            return ops[0]
        raise Undecided("einsum with ellipsis")
    ins, out = spec.split("->")
    subs = ins.split(",")
    if len(subs) != len(ops):
        raise Undecided("einsum arity")

    def depth(v):
        d = 0
        while isinstance(v, (list, tuple)):
            d += 1
            v = v[0] if v else None
        return d

    explicit = {}  # letter -> size
    exp_letters = []
    for sub, op in zip(subs, ops):
        d = depth(op)
        if d > len(sub):
            raise Undecided("einsum operand deeper than its subscript")
        v = op
        for i in range(d):
            L = sub[i]
            if L in explicit and explicit[L] != len(v):
                raise Undecided("einsum size mismatch")
            explicit[L] = len(v)
            exp_letters.append(L)
            v = v[0]
    # implicit letters that are contracted: a sum over a data axis. If the letter lives in ONE operand only it is a
    # reduction of that operand alone (opaque atom); shared contracted data axes are outside the fragment.
    all_in = set("".join(subs))
    ops = list(ops)
    for L in sorted(all_in - set(out)):
        if L not in explicit:
            owners = [i for i, sub in enumerate(subs) if L in sub]
            if len(owners) == 1 and not isinstance(ops[owners[0]], (list, tuple)):
                i = owners[0]
                ops[i] = fn("esum", to_poly(ops[i]), Poly.atom(f"axis_{subs[i].index(L)}"))
                subs[i] = subs[i].replace(L, "")
            else:
                raise Undecided(f"einsum contracts data axis '{L}'")
    # a letter explicit in one operand must be explicit (or absent) in the others
    for sub, op in zip(subs, ops):
        d = depth(op)
        for L in sub[d:]:
            if L in explicit:
                raise Undecided(f"einsum letter '{L}' explicit in one operand, implicit in another")
    out_exp = [L for L in out if L in explicit]
    if out[: len(out_exp)] != "".join(out_exp):
        raise Undecided("einsum explicit axes are not leading in the output")
    contracted = [L for L in explicit if L not in out]

    def elem(idx):
        tot = Poly.const(1)
        for sub, op in zip(subs, ops):
            v = op
            d = depth(op)
            for i in range(d):
                v = v[idx[sub[i]]]
            tot = tot * to_poly(v)
        return tot

    def summed(idx):
        if not contracted:
            return elem(idx)
        tot = Poly()

        def rec(i, idx2):
            nonlocal tot
            if i == len(contracted):
                tot = tot + elem(idx2)
                return
            L = contracted[i]
            for k in range(explicit[L]):
                idx3 = dict(idx2)
                idx3[L] = k
                rec(i + 1, idx3)

        rec(0, dict(idx))
        return tot

    def build(i, idx):
        if i == len(out_exp):
            return summed(idx)
        L = out_exp[i]
        return [build(i + 1, {**idx, L: k}) for k in range(explicit[L])]

    return build(0, {})
