"""A small object model on top of the interpreter: classes and functions of /repo are *interpreted* when the
fragment under analysis constructs or calls them (instead of being replaced by opaque recorders).  Instances
carry their attribute store; method calls on an instance dispatch to the class's own source.  Nothing of
/repo is executed: every body is walked by `alg.Interp`."""

from __future__ import annotations

import ast

from . import astutil as A
from .alg import Interp, NotHandled, Obj, Poly, PyFunc, Undecided, to_poly


_STATE_CTORS = {"dict", "list", "set", "OrderedDict", "WeakKeyDictionary", "WeakValueDictionary", "WeakSet"}


def _is_plain_state(v):
    """a constant, a container display of such, or an empty container constructor: module-level defaults and caches"""
    if isinstance(v, ast.Constant):
        return True
    if isinstance(v, (ast.List, ast.Tuple, ast.Set)):
        return all(_is_plain_state(x) for x in v.elts)
    if isinstance(v, ast.Dict):
        return all(k is not None and _is_plain_state(k) and _is_plain_state(x) for k, x in zip(v.keys, v.values))
    if isinstance(v, ast.UnaryOp) and isinstance(v.op, ast.USub):
        return _is_plain_state(v.operand)
    if isinstance(v, ast.Call) and not v.args and not v.keywords and (A.dotted(v.func) or "").split(".")[-1] in _STATE_CTORS:
        return True
    return False


class Instance(Obj):
    def __init__(self, cls):
        super().__init__(cls.name, {})
        self.cls = cls
        self.closed = False


class World:
    def __init__(self, base_ext=None, region=None, module_env=None):
        self.base = dict(base_ext or {})
        self.base.setdefault("__strict__", True)
        self.region = region if region is not None else {}
        self.base["__region__"] = self.region
        if isinstance(base_ext, dict):
            base_ext["__region__"] = self.region  # the array model's own closures read the region from their dict
        self.module_env = dict(module_env or {})
        self.classes = {}
        self.funcs = {}
        self.ext = None
        self.calls = []  # (kind, name) trace of interpreted callees
        self._seen_modules = set()
        self.class_state = {}
        self._pending_modules = []

    def add_class(self, cls):
        self.classes[cls.name] = cls
        self.ext = None
        self._note_module(getattr(cls, "module", None))
        # base classes defined in the package come along (a common private base two classes were given, a mixin): the scenario
        # names the class it wants, not how its definition is split over bases
        try:
            from . import home
            r = home.repo()
            for b in cls.base_names():
                bn = (b or "").split(".")[-1]
                if r is None or not b or bn in self.classes or bn in getattr(self, "foreign", {}):
                    continue
                kind, obj = r.resolve_name(cls.module, b)
                if kind == "class":
                    self.add_class(obj)
        except Exception:
            pass
        return self

    def methods_of(self, cls, _seen=None):
        """name -> Func with inherited methods of registered base classes (own definitions win)."""
        _seen = _seen or set()
        out = {}
        for bname in cls.base_names():
            b = self.classes.get((bname or "").split(".")[-1])
            if b is not None and b.name not in _seen:
                out.update(self.methods_of(b, _seen | {cls.name}))
        out.update(cls.methods)
        return out

    def load_globals(self, module, skip=()):
        """Module-level state of an interpreted module: every top-level `NAME = <display / constant / constructor call>`
        becomes ONE object of the module environment, shared by all later calls in this world -- a module-level cache or
        default that the code keeps between calls is then visible to history rules.  Names already present are kept;
        values the interpreter cannot build are left out (a read of such a name makes the fragment undecided)."""
        for st in module.tree.body:
            if isinstance(st, ast.Assign):
                targets, value = st.targets, st.value
            elif isinstance(st, ast.AnnAssign) and st.value is not None:
                targets, value = [st.target], st.value
            else:
                continue
            for t in targets:
                if not isinstance(t, ast.Name) or t.id in self.module_env or t.id in skip:
                    continue
                if not _is_plain_state(value):
                    continue
                try:
                    self.module_env[t.id] = Interp(dict(self.module_env), {}, self.region, externals=self.externals()).eval(value)
                except Exception:  # noqa: BLE001 -- not modelled: stays unknown
                    continue
        return self

    def _note_module(self, module):
        if module is not None and getattr(module, "relpath", None) not in self._seen_modules:
            self._seen_modules.add(module.relpath)
            self._pending_modules.append(module)

    def _setters_of(self, cls_name, _seen=None):
        """property name -> setter node, own class first, then registered bases"""
        cls = self.classes.get(cls_name)
        if cls is None:
            return {}
        out = {}
        for bname in cls.base_names():
            b = self.classes.get((bname or "").split(".")[-1])
            if b is not None and b.name != cls_name and b.name not in (_seen or ()):
                out.update(self._setters_of(b.name, (_seen or set()) | {cls_name}))
        out.update({k: v.node for k, v in getattr(cls, "setters", {}).items()})
        return out

    def add_func(self, f):
        self.funcs[f.node.name] = f
        self.ext = None
        self._note_module(getattr(f, "module", None))
        return self

    # ---- binding
    def _bind(self, fnode, args, kwargs, skip_self):
        a = fnode.args
        pos = [x.arg for x in a.posonlyargs + a.args]
        if skip_self and pos and pos[0] in ("self", "cls"):
            pos = pos[1:]
        env = {}
        defaults = A.param_defaults(fnode)
        def conv(cv):
            if cv is None or isinstance(cv, (bool, str)):
                return cv
            if isinstance(cv, (int, float)):
                return to_poly(cv)
            if isinstance(cv, tuple):
                return tuple(conv(x) for x in cv)
            if isinstance(cv, list):
                return [conv(x) for x in cv]
            return None

        for name, d in defaults.items():
            if isinstance(d, (ast.Dict, ast.List, ast.Set)) or (isinstance(d, ast.Call) and A.dotted(d.func) in ("dict", "list", "set") and not d.args and not d.keywords):
                # a MUTABLE default is one object, created when the function is defined and shared by every call that omits the argument
                store = self.__dict__.setdefault("_mutable_defaults", {})
                key = (id(fnode), name)
                if key not in store:
                    cv = A.const_value(d)
                    store[key] = conv(cv) if isinstance(cv, list) else ({} if isinstance(d, ast.Dict) or A.dotted(getattr(d, "func", None)) == "dict" else (set() if isinstance(d, ast.Set) or A.dotted(getattr(d, "func", None)) == "set" else []))
                    if isinstance(d, ast.Dict) and d.keys:
                        try:
                            store[key] = {A.const_value(k_): conv(A.const_value(v_)) for k_, v_ in zip(d.keys, d.values)}
                        except Exception:  # noqa: BLE001
                            store[key] = {}
                env[name] = store[key]
                continue
            env[name] = conv(A.const_value(d))
        if len(args) > len(pos) and not a.vararg:
            raise Undecided(f"too many positional arguments for {getattr(fnode, 'name', '?')}")
        for n, v in zip(pos, args):
            env[n] = v
        if a.vararg:
            env[a.vararg.arg] = list(args[len(pos):])
        if a.kwarg:
            env.setdefault(a.kwarg.arg, {})
        for k, v in (kwargs or {}).items():
            if k in pos or k in [x.arg for x in a.kwonlyargs]:
                env[k] = v
            elif a.kwarg:
                env.setdefault(a.kwarg.arg, {})[k] = v
            else:
                raise Undecided(f"unexpected keyword {k}")
        missing = [n for n in pos if n not in env]
        if missing:
            raise Undecided(f"missing arguments {missing}")
        return env

    # ---- execution
    def externals(self):
        if self.ext is not None:
            return self.ext
        ext = dict(self.base)
        ext["__region__"] = self.region
        for name, cls in self.classes.items():
            ext[name] = (lambda a, k, cls=cls: self.new(cls, a, k))
        for name, f in self.funcs.items():
            ext[name] = (lambda a, k, f=f: self.call_func(f, a, k))
        for cls in self.classes.values():
            for mname, m in cls.methods.items():
                if any(A.dotted(d) == "staticmethod" for d in m.node.decorator_list) and mname not in ext:
                    ext[mname] = (lambda a, k, m=m: self.call_func(m, a, k))
        mnames = {m for cls in self.classes.values() for m in self.methods_of(cls)}
        for fm in getattr(self, "foreign", {}).values():
            mnames |= set(fm)
        for m in mnames:
            base_m = self.base.get("." + m)

            def disp(recv, a, k, m=m, base_m=base_m):
                if isinstance(recv, Instance) and m in self.methods_of(recv.cls):
                    return self.call_method(recv, m, a, k)
                if isinstance(recv, Instance):
                    ff = self.foreign_method(recv.cls, m)
                    if ff is not None:
                        return ff(recv, list(a), k or {})
                if base_m is not None:
                    return base_m(recv, a, k)
                raise NotHandled()

            ext["." + m] = disp
        ext["__iter__"] = self.iterate
        ext["__call__"] = self.call_instance
        ext["__super__"] = self.call_super
        ext["__getattr__"] = self.get_property
        ext["__getitem__"] = self.get_item
        ext["__contains__"] = self.contains
        ext["__eq__"] = self.equal
        ext["__bool__"] = self.truth
        base_len = self.base.get("__len__")
        ext["__len__"] = (lambda v, base_len=base_len: (base_len(v) if base_len is not None and not isinstance(v, Instance) else self.length(v)))
        ext["__module_env__"] = self.module_env
        ext["__class_state__"] = self.class_state
        ext["__world__"] = self
        ext["__setters__"] = self._setters_of
        self.ext = ext
        for cname, cls in self.classes.items():  # class-level constants / containers: one object per class, shared by all instances
            if cname in self.class_state:
                continue
            st_ = self.class_state.setdefault(cname, {})
            for aname, vnode in (getattr(cls, "attrs", None) or {}).items():
                if _is_plain_state(vnode):
                    try:
                        st_[aname] = Interp(dict(self.module_env), {}, self.region, externals=ext).eval(vnode)
                    except Exception:  # noqa: BLE001
                        pass
        while self._pending_modules:  # module-level containers / constants of the interpreted modules (shared state)
            self.load_globals(self._pending_modules.pop())
        return ext

    # ---- foreign (non-repo) base classes: name -> {method: python callable(inst, args, kwargs)}
    def add_foreign_base(self, name, methods):
        if not hasattr(self, "foreign"):
            self.foreign = {}
        self.foreign[name] = methods
        self.ext = None
        return self

    def foreign_method(self, cls, mname, _seen=None):
        _seen = _seen or set()
        for bname in cls.base_names():
            short = (bname or "").split(".")[-1]
            if short in getattr(self, "foreign", {}) and mname in self.foreign[short]:
                return self.foreign[short][mname]
            b = self.classes.get(short)
            if b is not None and b.name not in _seen:
                f = self.foreign_method(b, mname, _seen | {cls.name})
                if f is not None:
                    return f
        return None

    def length(self, v):
        """len(v) for an instance whose class defines __len__ (None: not this model's business)"""
        if isinstance(v, Instance) and "__len__" in self.methods_of(v.cls):
            n = to_poly(self.call_method(v, "__len__", [], {}))
            if n.is_const() and n.const_value().denominator == 1:
                return int(n.const_value())
            raise Undecided("symbolic length")
        return None

    def get_property(self, v, attr):
        if not isinstance(v, Instance):
            raise NotHandled()
        m = self.methods_of(v.cls).get(attr)
        if m is not None and any(A.dotted(d) in ("property", "functools.cached_property", "cached_property") for d in m.node.decorator_list):
            return self.call_method(v, attr, [], {})
        if m is not None:
            return PyFunc(lambda a, k: self.call_method(v, attr, a, k), f"{v.cls.name}.{attr}")
        try:
            names = self.mro_names(v.cls)
        except Undecided:
            names = [v.cls.name]
        for cn in names:  # a class attribute read through the instance (own class first, then its bases)
            st_ = self.class_state.get(cn) or {}
            if attr in st_:
                return st_[attr]
        # an object built in ANOTHER world (a real parameter set handed into this scenario): literal class attributes of its
        # class and of the package classes it derives from
        from . import home
        chain, seen_ = [v.cls], set()
        while chain:
            c_ = chain.pop(0)
            if id(c_) in seen_:
                continue
            seen_.add(id(c_))
            node_ = (getattr(c_, "attrs", None) or {}).get(attr)
            if isinstance(node_, ast.Constant):
                val_ = node_.value
                return val_ if isinstance(val_, (str, bool)) or val_ is None else Poly.const(val_)
            r_ = home.repo()
            for b in c_.base_names():
                if r_ is not None and b:
                    kind, obj = r_.resolve_name(c_.module, b)
                    if kind == "class":
                        chain.append(obj)
        raise NotHandled()

    def get_item(self, v, key):
        if isinstance(v, Instance) and "__getitem__" in self.methods_of(v.cls):
            return self.call_method(v, "__getitem__", [key], {})
        if isinstance(v, Instance):
            f = self.foreign_method(v.cls, "__getitem__")
            if f is not None:
                return f(v, [key], {})
        raise NotHandled()

    def contains(self, v, key):
        if isinstance(v, Instance) and "__contains__" in self.methods_of(v.cls):
            return self.truth_of(self.call_method(v, "__contains__", [key], {}))
        if isinstance(v, Instance):
            f = self.foreign_method(v.cls, "__contains__")
            if f is not None:
                return bool(f(v, [key], {}))
        raise NotHandled()

    def equal(self, a, b):
        """a == b for instances whose class (or a registered base) defines __eq__; NotImplemented falls back to identity"""
        if "__eq__" in self.base:
            try:
                return self.base["__eq__"](a, b)  # the scenario's own notion of equality for its stand-ins
            except NotHandled:
                pass
        if isinstance(a, Instance) and "__eq__" in self.methods_of(a.cls):
            r = self.call_method(a, "__eq__", [b], {})
            if isinstance(r, bool):
                return r
            if isinstance(r, Obj) and r.name == "NotImplemented":
                return a is b
            raise Undecided("__eq__ did not return a bool")
        raise NotHandled()

    @staticmethod
    def truth_of(v):
        if isinstance(v, bool):
            return v
        raise Undecided("__contains__ did not return a bool")

    def truth(self, v):
        if not isinstance(v, Instance):
            raise NotHandled()
        if "__bool__" in self.methods_of(v.cls):
            return self.call_method(v, "__bool__", [], {})
        f = self.foreign_method(v.cls, "__bool__")
        if f is not None:
            return f(v, [], {})
        if "__len__" in self.methods_of(v.cls):
            from .alg import to_poly as _tp
            return _tp(self.call_method(v, "__len__", [], {})).const_value() != 0
        return True

    def mro_names(self, cls):
        """Linearisation of a class over registered and foreign bases (C3 for the shapes the package uses: depth first, left
        to right, a base shared by several parents after the last of them)."""
        def lin(c_name):
            c = self.classes.get(c_name)
            if c is None:
                return [c_name]
            seqs = [lin((b or "").split(".")[-1]) for b in c.base_names()] + [[(b or "").split(".")[-1] for b in c.base_names()]]
            out = [c_name]
            seqs = [list(x) for x in seqs if x]
            while seqs:
                for sq in seqs:
                    head = sq[0]
                    if not any(head in other[1:] for other in seqs):
                        break
                else:
                    raise Undecided(f"inconsistent class hierarchy at {c_name}")
                out.append(head)
                seqs = [[x for x in sq if x != head] for sq in seqs]
                seqs = [sq for sq in seqs if sq]
            return out
        return lin(cls.name)

    def call_super(self, cls_name, mname, inst, args, kwargs):
        cls = self.classes.get(cls_name)
        if cls is None or not isinstance(inst, Instance):
            raise Undecided(f"super().{mname} outside the object model")
        # super() continues along the linearisation of the INSTANCE's class after the class the call is written in
        order = self.mro_names(inst.cls)
        after = order[order.index(cls_name) + 1:] if cls_name in order else [(b or "").split(".")[-1] for b in cls.base_names()]
        for bname in after:
            b = self.classes.get(bname)
            if b is not None and mname in b.methods:
                m = b.methods[mname]
                env = dict(self.module_env)
                env.update(self._bind(m.node, list(args), kwargs or {}, skip_self=True))
                env["self"] = inst
                it = Interp(env, inst.attrs, self.region, methods={n: mm.node for n, mm in self.methods_of(b).items()}, cls_name=b.name, externals=self.externals())
                return it.run(A.strip_docstring(m.node.body))
            if b is None and bname in getattr(self, "foreign", {}) and mname in self.foreign[bname]:
                return self.foreign[bname][mname](inst, list(args), kwargs or {})
        if mname == "__init__" and all(bn not in self.classes or bn == cls_name for bn in after if bn not in getattr(self, "foreign", {})):
            return None  # object.__init__ (or an unmodelled base that only stores its own state)
        raise Undecided(f"super().{mname}: no registered base class defines it")

    def call_instance(self, v, args, kwargs):
        if not (isinstance(v, Instance) and "__call__" in self.methods_of(v.cls)):
            raise NotHandled()
        return self.call_method(v, "__call__", args, kwargs)

    def iterate(self, v):
        """Items of `for x in instance`: the operand of the `yield from` / `return iter(...)` of its __iter__."""
        if not (isinstance(v, Instance) and "__iter__" in self.methods_of(v.cls)):
            raise NotHandled()
        body = A.strip_docstring(self.methods_of(v.cls)["__iter__"].node.body)
        src = None
        if len(body) == 1 and isinstance(body[0], ast.Expr) and isinstance(body[0].value, ast.YieldFrom):
            src = body[0].value.value
        elif len(body) == 1 and isinstance(body[0], ast.Return) and isinstance(body[0].value, ast.Call) and A.call_attr(body[0].value) == "iter" and body[0].value.args:
            src = body[0].value.args[0]
        if src is None:
            raise Undecided(f"{v.cls.name}.__iter__ is not a plain delegation")
        it = Interp(dict(self.module_env, self=v), v.attrs, self.region, methods={n: mm.node for n, mm in v.cls.methods.items()}, cls_name=v.cls.name, externals=self.externals())
        return it.iterable(it.eval(src))

    def new(self, cls, args, kwargs):
        inst = Instance(cls)
        if "__init__" in self.methods_of(cls):
            self.call_method(inst, "__init__", args, kwargs)
            return inst
        # record-like classes whose constructor the language writes: @dataclass and typing.NamedTuple (used here for their NAMED
        # fields, properties and methods; positional unpacking of such an instance is not modelled)
        node = cls.node
        is_dc = any(((A.dotted(d.func) if isinstance(d, ast.Call) else A.dotted(d)) or "").split(".")[-1] == "dataclass" for d in node.decorator_list)
        is_nt = any((A.dotted(b) or "").split(".")[-1] == "NamedTuple" for b in node.bases)
        if is_dc or is_nt:
            fields = [(st.target.id, st.value) for st in node.body if isinstance(st, ast.AnnAssign) and isinstance(st.target, ast.Name)]
            kwargs = dict(kwargs or {})
            if len(args) > len(fields) or set(kwargs) - {n for n, _ in fields}:
                raise Undecided(f"{cls.name}(...): arguments do not match its fields")
            for i, (name, dflt) in enumerate(fields):
                if i < len(args):
                    inst.attrs[name] = args[i]
                elif name in kwargs:
                    inst.attrs[name] = kwargs[name]
                elif dflt is not None:
                    inst.attrs[name] = Interp(dict(self.module_env), {}, self.region, externals=self.externals()).eval(dflt)
                else:
                    raise Undecided(f"{cls.name}(...): field {name} not given")
            if is_dc and "__post_init__" in self.methods_of(cls):
                self.call_method(inst, "__post_init__", [], {})
        elif args or kwargs:
            raise Undecided(f"{cls.name}(...) takes arguments but the class defines no constructor the model knows")
        return inst

    def call_method(self, inst, mname, args, kwargs=None):
        allm = self.methods_of(inst.cls)
        m = allm[mname]
        self.calls.append(("method", f"{inst.cls.name}.{mname}"))
        self.externals()  # loads pending module-level state
        env = dict(self.module_env)
        env.update(self._bind(m.node, list(args), kwargs or {}, skip_self=True))
        env["self"] = inst
        it = Interp(env, inst.attrs, self.region, methods={n: mm.node for n, mm in allm.items()}, cls_name=inst.cls.name, externals=self.externals())
        from .alg import is_memoising, memo_key
        if is_memoising(m.node):
            memo = self.externals().setdefault("__memo__", {})
            key = (m.node.name, getattr(m.node, "lineno", 0), id(inst), memo_key(list(args)), memo_key(sorted((kwargs or {}).items())))
            if key not in memo:
                memo[key] = it.run(A.strip_docstring(m.node.body))
            return memo[key]
        return it.run(A.strip_docstring(m.node.body))

    def call_func(self, f, args, kwargs=None):
        self.calls.append(("function", f.node.name))
        self.externals()
        if any(((A.dotted(d.func) if isinstance(d, ast.Call) else A.dotted(d)) or "").split(".")[-1] in ("lru_cache", "cache") for d in f.node.decorator_list):
            # functools memoisation: one result per argument tuple for the life of the process (objects by identity)
            def key_of(v):
                if isinstance(v, (str, bool)) or v is None:
                    return ("v", v)
                if isinstance(v, Poly):
                    return ("p", str(v))
                if isinstance(v, tuple):
                    return ("t", tuple(key_of(x) for x in v))
                if isinstance(v, Obj) and v.name == "path" and isinstance(v.attrs.get("p"), str):
                    return ("path", v.attrs["p"])  # pathlib paths hash and compare by value
                return ("id", id(v))
            memo = self.__dict__.setdefault("_memo", {})
            k_ = (f.node.name, tuple(key_of(a) for a in args), tuple(sorted((n, key_of(v)) for n, v in (kwargs or {}).items())))
            if k_ in memo:
                return memo[k_]
            memo[k_] = self._call_func_body(f, args, kwargs)
            return memo[k_]
        return self._call_func_body(f, args, kwargs)

    def _call_func_body(self, f, args, kwargs=None):
        env = dict(self.module_env)
        env.update(self._bind(f.node, list(args), kwargs or {}, skip_self=False))
        it = Interp(env, {}, self.region, externals=self.externals())
        return it.run(A.strip_docstring(f.node.body))


def dict_base():
    """`dict` as a foreign base class: the mapping an instance of a dict subclass IS lives in attrs['__payload__']."""
    from .alg import _PyRaise
    P = "__payload__"

    def pl(inst):
        return inst.attrs.setdefault(P, {})

    def init(inst, a, k):
        if a:
            src = a[0]
            if isinstance(src, Instance):
                src = pl(src)
            if isinstance(src, dict):
                pl(inst).update(src)
            elif isinstance(src, (list, tuple)):
                pl(inst).update({kk: vv for kk, vv in src})
            else:
                raise Undecided("dict(<non-mapping>)")
        pl(inst).update(k)
        return None

    def getitem(inst, a, k):
        if a[0] not in pl(inst):
            raise _PyRaise("KeyError")
        return pl(inst)[a[0]]

    def pop(inst, a, k):
        if a[0] in pl(inst):
            return pl(inst).pop(a[0])
        if len(a) > 1:
            return a[1]
        raise _PyRaise("KeyError")

    return {
        "__init__": init, "__getitem__": getitem, "__contains__": lambda inst, a, k: a[0] in pl(inst),
        "get": lambda inst, a, k: pl(inst).get(a[0], a[1] if len(a) > 1 else None),
        "keys": lambda inst, a, k: list(pl(inst).keys()), "values": lambda inst, a, k: list(pl(inst).values()),
        "items": lambda inst, a, k: [tuple(kv) for kv in pl(inst).items()],
        "setdefault": lambda inst, a, k: pl(inst).setdefault(a[0], a[1] if len(a) > 1 else None),
        "pop": pop, "update": lambda inst, a, k: init(inst, a, k), "__len__": lambda inst, a, k: Poly.const(len(pl(inst))),
        "__bool__": lambda inst, a, k: bool(pl(inst)),
    }
