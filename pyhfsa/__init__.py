"""pyhfsa -- repository-specific static analysis of scikit-hep/pyhf.

Nothing in /repo is imported or executed: every check parses the current
working tree under <repo>/src/pyhf with ``ast`` and decides from the syntax
trees, resolved call tables, CFGs and small abstract domains.
"""

__all__ = ["loader", "astutil", "core", "cfg", "dep", "alg"]
