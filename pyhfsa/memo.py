"""MEMO-STATE: an effect rule over memoised functions.

A function wrapped in functools.lru_cache / functools.cache answers from its ARGUMENTS alone for the life of the process.
Whatever else it reads must therefore never change: a memoised function (or a package function it calls, followed through
resolved callees) that reads

  * a module-level name that some function of the package rebinds (`global N; N = ...`), or
  * an attribute of a package module that some function of the package assigns (`variables.schemas = ...`), or
  * the current backend (get_backend(), pyhf.tensorlib, pyhf.default_backend, pyhf.optimizer)

keeps answering from the state of its FIRST call after that state was switched.  The rule instances are the memoised
functions of the files a property is anchored in; the pinned tree has none, so a built-in fixture (a three-function module
given as text) must be reported on every run -- a rule that can no longer see its own positive example fails the run.
"""

from __future__ import annotations

import ast

from . import astutil as A

MEMO_DECORATORS = ("lru_cache", "cache")
BACKEND_READS = ("get_backend",)
BACKEND_ATTRS = ("tensorlib", "default_backend", "optimizer", "default_optimizer")


def is_memoised(fnode) -> bool:
    for d in getattr(fnode, "decorator_list", []):
        name = (A.dotted(d.func) if isinstance(d, ast.Call) else A.dotted(d)) or ""
        if name.split(".")[-1] in MEMO_DECORATORS:
            return True
    return False


def _module_level_memo_assigns(m):
    """NAME = functools.lru_cache(...)(f) / cache(f) at module level: f is memoised under NAME"""
    out = {}
    for name, v in m.assigns.items():
        if isinstance(v, ast.Call):
            inner = v.func
            nm = (A.dotted(inner.func) if isinstance(inner, ast.Call) else A.dotted(inner)) or ""
            if nm.split(".")[-1] in MEMO_DECORATORS and v.args and isinstance(v.args[0], ast.Name):
                out[name] = v.args[0].id
    return out


def rebound_state(repo):
    """{(module name, attribute)}: module-level state some FUNCTION of the package rebinds at run time."""
    out = {}
    for m in repo.modules.values():
        for f in m.funcs.values():
            globs = {n for st in ast.walk(f.node) if isinstance(st, ast.Global) for n in st.names}
            for st in ast.walk(f.node):
                targets = []
                if isinstance(st, ast.Assign):
                    targets = st.targets
                elif isinstance(st, (ast.AugAssign, ast.AnnAssign)):
                    targets = [st.target]
                flat = []
                for t in targets:
                    flat.extend(t.elts if isinstance(t, (ast.Tuple, ast.List)) else [t])
                for t in flat:
                    if isinstance(t, ast.Name) and t.id in globs:
                        out.setdefault((m.name, t.id), f"{m.relpath}::{f.qualname}")
                    elif isinstance(t, ast.Attribute):
                        base = A.dotted(t.value)
                        if base:
                            kind, obj = repo.resolve_name(m, base)
                            if kind == "module":
                                out.setdefault((obj.name, t.attr), f"{m.relpath}::{f.qualname}")
    return out


def _reads(repo, m, fnode, rebound):
    """[(what, node)] -- direct reads of switchable state in one function body"""
    found = []
    local_defs = {a.arg for a in ast.walk(fnode) if isinstance(a, ast.arg)}
    for n in ast.walk(fnode):
        if isinstance(n, ast.Name) and isinstance(n.ctx, ast.Load) and n.id not in local_defs:
            if (m.name, n.id) in rebound:
                found.append((f"module-level `{n.id}` (rebound in {rebound[(m.name, n.id)]})", n))
            elif n.id in m.imports:
                kind, obj = repo.resolve_abs(m.imports[n.id])
                # from .variables import schemas: a copy of the binding at import time -- not switchable state itself
        elif isinstance(n, ast.Attribute) and isinstance(n.ctx, ast.Load):
            base = A.dotted(n.value)
            if base:
                kind, obj = repo.resolve_name(m, base)
                if kind == "module" and (obj.name, n.attr) in rebound:
                    found.append((f"`{base}.{n.attr}` (assigned in {rebound[(obj.name, n.attr)]})", n))
                elif kind == "module" and obj.name == "pyhf" and n.attr in BACKEND_ATTRS:
                    found.append((f"the current backend `{base}.{n.attr}`", n))
        elif isinstance(n, ast.Call):
            nm = (A.dotted(n.func) or "").split(".")[-1]
            if nm in BACKEND_READS:
                found.append(("the current backend (get_backend())", n))
    return found


def state_reads(repo, m, fnode, rebound, depth=4, _seen=None):
    """reads of switchable state by a function and by the package functions it calls (resolved callees, bounded depth)"""
    _seen = _seen if _seen is not None else set()
    key = (m.name, getattr(fnode, "name", "?"), getattr(fnode, "lineno", 0))
    if key in _seen:
        return []
    _seen.add(key)
    found = [(w, n, []) for w, n in _reads(repo, m, fnode, rebound)]
    if depth <= 0:
        return found
    for c in ast.walk(fnode):
        if not isinstance(c, ast.Call):
            continue
        nm = A.dotted(c.func)
        if not nm:
            continue
        kind, obj = repo.resolve_name(m, nm)
        if kind == "func" and obj.node is not fnode:
            for w, n, path in state_reads(repo, obj.module, obj.node, rebound, depth - 1, _seen):
                found.append((w, n, [f"{obj.relpath}::{obj.qualname}"] + path))
    return found


FIXTURE = '''
import functools
from pyhf.schema import variables

@functools.lru_cache(maxsize=None)
def resolver_for(name, version):
    return (variables.schemas, name, version)

@functools.lru_cache(maxsize=None)
def pure(name):
    return name.upper()
'''


def check(ctx, rid, relpaths, what="this property's anchor files"):
    """One obligation per memoised function in `relpaths` (+ the fixture).  Returns the number of memoised functions seen."""
    repo = ctx.repo
    rebound = rebound_state(repo)
    # the rule must still see its positive example: schema.variables.schemas is rebound by pyhf.schema.Schema
    fx = ast.parse(FIXTURE)
    fm = type("FixtureModule", (), {})()
    fm.name, fm.relpath, fm.imports, fm.funcs, fm.classes, fm.assigns = "<fixture>", "<fixture>", {"functools": "functools", "variables": "pyhf.schema.variables"}, {}, {}, {}
    fired = {f.name: bool(state_reads(repo, fm, f, rebound, depth=0)) for f in fx.body if isinstance(f, ast.FunctionDef)}
    if fired != {"resolver_for": True, "pure": False}:
        ctx.unrecognised(rid, repo.module("src/pyhf/schema/__init__.py"), "memoisation fixture", f"the rule no longer recognises its own example (a memoised function reading pyhf.schema.variables.schemas): {fired}; rebound state known: {sorted(rebound)[:8]}")
        return 0
    ctx.holds(rid, "<fixture>::resolver_for / pure", f"positive example reported, negative example silent; {len(rebound)} pieces of run-time rebound module state known ({', '.join(sorted(a + '.' + b for a, b in rebound)[:6])} ...)")
    n = 0
    for rel in relpaths:
        try:
            m = repo.module(rel)
        except Exception:
            continue
        memo_names = _module_level_memo_assigns(m)
        for f in m.funcs.values():
            wrapped_as = [k for k, v in memo_names.items() if v == f.qualname]
            if not (is_memoised(f.node) or wrapped_as):
                continue
            n += 1
            ctx.touch(f)
            reads = state_reads(repo, m, f.node, rebound)
            if reads:
                w, node, path = reads[0]
                via = (" through " + " -> ".join(path)) if path else ""
                ctx.violated(rid, f, f"memoised {f.qualname}", f"`{f.qualname}` answers from its arguments alone for the life of the process, but it reads {w}{via}: after that state is switched (a custom schema directory, another backend ...) it keeps returning what it computed for the OLD state, so the second use in a process differs from a fresh one", expected="a memoised function reads its arguments and constants only (or the switchable state is part of the key)", found=f"{len(reads)} read(s) of switchable state", node=node)
            else:
                ctx.holds(rid, f"{rel}::{f.qualname} [memoised]", "reads its arguments and run-time constant module state only")
    return n
