"""CLI: python -m pyhfsa check C03 [--tier quick|thorough] [--repo /repo]

Exit 0: every obligation held (known findings are printed and tolerated);
exit 1: `VIOLATION property=<id> replay=<path>` for each unlisted violation;
exit 2: ANALYSIS-ERROR (anchor vanished, floor not met, unrecognised construct, crash).
"""

from __future__ import annotations

import argparse
import importlib
import json
import os
import sys
import time
import traceback

from .core import Ctx, finish
from .loader import AnalysisError, Repo

PROPS = [f"C{i:02d}" for i in range(1, 21) if i != 15]


def run_property(pid: str, tier: str, repo_root: str, write_evidence=True, quiet=False) -> tuple[int, Ctx | None]:
    t0 = time.time()
    cmd = f"/venv/bin/python -m pyhfsa check {pid} --tier {tier}"
    try:
        mod = importlib.import_module(f"pyhfsa.props.{pid.lower()}")
    except ModuleNotFoundError:
        print(f"ANALYSIS-ERROR property={pid} no checker module")
        return 2, None
    try:
        repo = Repo(repo_root)
        ctx = Ctx(pid, repo, tier)
        try:
            mod.run(ctx)
        except AnalysisError as e:
            ctx.error(str(e))
        except Exception as e:  # analyser crash: never a silent pass, never a violation
            ctx.error(f"analyser crashed: {type(e).__name__}: {e}\n{traceback.format_exc()}")
        for entry in getattr(mod, "DEFER_WITHIN", []):
            ctx.defer_within(*entry)  # (rule, weak(site, detail), strong(site)[, also-rules])
        for entry in getattr(mod, "DEFER", []):
            ctx.defer(*entry)  # (structural, semantic[, only-instances-whose-site-contains])
        code = finish(ctx, t0, cmd, mod.EXPLANATION, mod.ASSUMPTIONS, write_evidence=write_evidence, quiet=quiet)
        return code, ctx
    except AnalysisError as e:
        print(f"ANALYSIS-ERROR property={pid} {e}")
        return 2, None
    except Exception as e:
        print(f"ANALYSIS-ERROR property={pid} analyser crashed: {type(e).__name__}: {e}")
        traceback.print_exc()
        return 2, None


def main(argv=None):
    ap = argparse.ArgumentParser(prog="pyhfsa")
    sub = ap.add_subparsers(dest="cmd", required=True)
    c = sub.add_parser("check")
    c.add_argument("prop")
    c.add_argument("--tier", default=os.environ.get("VERIF_TIER", "quick"), choices=["quick", "thorough"])
    c.add_argument("--repo", default=os.environ.get("PYHFSA_REPO", "/repo"))
    c.add_argument("--no-evidence", action="store_true")
    r = sub.add_parser("replay")
    r.add_argument("path")
    r.add_argument("--repo", default=None)
    a = sub.add_parser("all")
    a.add_argument("--tier", default="quick")
    a.add_argument("--repo", default=os.environ.get("PYHFSA_REPO", "/repo"))
    a.add_argument("--no-evidence", action="store_true")
    s = sub.add_parser("selftest")
    s.add_argument("props", nargs="*")
    s.add_argument("--jobs", type=int, default=16)
    s.add_argument("--repo", default=os.environ.get("PYHFSA_REPO", "/repo"))
    args = ap.parse_args(argv)

    if args.cmd == "check":
        code, _ = run_property(args.prop.upper(), args.tier, args.repo, write_evidence=not args.no_evidence)
        if code == 0 and args.tier == "thorough" and not os.environ.get("PYHFSA_IN_AUDIT"):
            from . import audit
            audit.run_audit([args.prop.upper()], args.repo, jobs=16, into_evidence=not args.no_evidence)
        return code
    if args.cmd == "all":
        worst = 0
        for p in PROPS:
            code, _ = run_property(p, args.tier, args.repo, write_evidence=not args.no_evidence)
            worst = max(worst, code)
        return worst
    if args.cmd == "replay":
        rp = json.load(open(args.path))
        pid = rp["property"]
        root = args.repo or rp.get("repo_root", "/repo")
        code, ctx = run_property(pid, rp.get("tier", "quick"), root, write_evidence=False, quiet=True)
        hit = False
        if ctx is not None:
            for v in ctx.violations:
                if (v.rule, v.relpath, v.qualname, " ".join(v.construct.split())) == (
                    rp["rule"], rp["relpath"], rp["qualname"], " ".join(rp["construct"].split())
                ):
                    hit = True
                    print(f"VIOLATION property={pid} replay={args.path}")
                    print(f"  rule {v.rule} at {v.relpath}:{v.line} in {v.qualname}\n  construct: {v.construct}\n  what: {v.what}")
        if not hit:
            print(f"replay: the recorded violation ({rp['rule']} at {rp['relpath']}::{rp['qualname']}) is not present in {root}")
            return 0
        return 1
    if args.cmd == "selftest":
        from . import audit
        return audit.run_audit([p.upper() for p in args.props] or PROPS, args.repo, jobs=args.jobs, into_evidence=False, verbose=True)


if __name__ == "__main__":
    sys.exit(main())
