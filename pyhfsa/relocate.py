"""Anchors that moved: private names of the pinned tree that a later tree spells differently.

The rules name the functions, methods and private attributes they reason about.  Public names cannot change without the
test-suite noticing; PRIVATE ones (a leading underscore) can: `_finalize_parameters_specs` becomes
`_apply_user_parameter_configs`, `self._pdf` becomes `self._dist`.  A whole-tree renaming is an equivalence of programs, so
this pass undoes it before anything else looks at the tree:

  * `pinned_names.json` (generated from the pinned tree by `python -m pyhfsa.relocate --write`) lists, per module, every
    private function / method with a fingerprint (its body with its own name, its parameters and its locals made anonymous)
    and every private `self.<attr>` of every class with the statements that mention it (the attribute itself made anonymous);
  * when a pinned private name is no longer defined in its module / class and a NEW private name is (one the pinned tree
    does not have there), the new name whose fingerprint is closest is taken to be the old one under another name -- only
    when it is close (ratio >= 0.6) and clearly closer than the runner-up -- and is renamed back, everywhere in the package
    (definitions, calls, imports, attribute accesses).  Reports then use the pinned name and say which name the tree uses.

A wrong guess would make a rule look at another function than it means to; rules do not trust what they find (every one
re-derives its facts from the code it is pointed at), so the cost of a wrong guess is an alarm, never a silent pass.
"""

from __future__ import annotations

import ast
import difflib
import json
import re
import sys
from pathlib import Path

PINNED = Path(__file__).with_name("pinned_names.json")
_TOK = re.compile(r"\w+|[^\w\s]")


def _is_private(name):
    return name.startswith("_") and not (name.startswith("__") and name.endswith("__"))


class _Anon(ast.NodeTransformer):
    def __init__(self, names):
        self.map = {}
        self.names = names

    def _n(self, s):
        if s not in self.map:
            self.map[s] = f"v{len(self.map)}"
        return self.map[s]

    def visit_Name(self, node):
        if node.id in self.names:
            return ast.copy_location(ast.Name(id=self._n(node.id), ctx=node.ctx), node)
        return node

    def visit_arg(self, node):
        node.arg = self._n(node.arg) if node.arg in self.names else node.arg
        node.annotation = None
        return node

    def visit_keyword(self, node):
        self.generic_visit(node)
        return node


def fingerprint(fnode):
    """token string of a function with its own name, its parameters and its locals anonymised, docstring and annotations dropped"""
    import copy
    f = copy.deepcopy(fnode)
    f.name = "F"
    f.returns = None
    f.decorator_list = [d for d in f.decorator_list]
    if f.body and isinstance(f.body[0], ast.Expr) and isinstance(getattr(f.body[0], "value", None), ast.Constant) and isinstance(f.body[0].value.value, str):
        f.body = f.body[1:] or [ast.Pass()]
    local = {a.arg for a in ast.walk(f) if isinstance(a, ast.arg)} | {n.id for n in ast.walk(f) if isinstance(n, ast.Name) and isinstance(n.ctx, ast.Store)}
    f = _Anon(local).visit(f)
    for n in ast.walk(f):
        if isinstance(n, ast.Constant) and isinstance(n.value, str) and len(n.value) > 40:
            n.value = "S"  # long messages are not identity
    return " ".join(_TOK.findall(ast.dump(f, annotate_fields=False)))


def _attr_contexts(cnode, attr):
    out = []
    for st in ast.walk(cnode):
        if isinstance(st, ast.stmt) and not isinstance(st, (ast.FunctionDef, ast.AsyncFunctionDef, ast.ClassDef, ast.If, ast.For, ast.While, ast.With, ast.Try)):
            if any(isinstance(n, ast.Attribute) and n.attr == attr and isinstance(n.value, ast.Name) and n.value.id == "self" for n in ast.walk(st)):
                txt = ast.dump(st, annotate_fields=False).replace(f"'{attr}'", "'@'")
                out.append(" ".join(_TOK.findall(txt))[:600])
    return out


def survey(tree):
    """{'funcs': {qualname: fingerprint}, 'attrs': {class: {attr: [contexts]}}, 'names': [every top-level / method name]}"""
    funcs, attrs, names = {}, {}, []
    for st in tree.body:
        if isinstance(st, (ast.FunctionDef, ast.AsyncFunctionDef)):
            names.append(st.name)
            if _is_private(st.name):
                funcs[st.name] = fingerprint(st)
        elif isinstance(st, ast.ClassDef):
            names.append(st.name)
            for s2 in st.body:
                if isinstance(s2, (ast.FunctionDef, ast.AsyncFunctionDef)):
                    names.append(f"{st.name}.{s2.name}")
                    if _is_private(s2.name):
                        funcs[f"{st.name}.{s2.name}"] = fingerprint(s2)
            priv = sorted({n.attr for n in ast.walk(st) if isinstance(n, ast.Attribute) and isinstance(n.value, ast.Name) and n.value.id == "self" and _is_private(n.attr)})
            meths = {s2.name for s2 in st.body if isinstance(s2, (ast.FunctionDef, ast.AsyncFunctionDef))}
            attrs[st.name] = {a: _attr_contexts(st, a) for a in priv if a not in meths}
    return {"funcs": funcs, "attrs": attrs, "names": names}


def _ratio(a, b):
    return difflib.SequenceMatcher(None, a.split(), b.split(), autojunk=False).ratio()


def _best(old_fp, candidates):
    """(name, ratio) of the candidate clearly closest to old_fp, or None"""
    scored = sorted(((_ratio(old_fp, fp), nm) for nm, fp in candidates.items()), reverse=True)
    if not scored or scored[0][0] < 0.6:
        return None
    if len(scored) > 1 and scored[0][0] - scored[1][0] < 0.1:
        return None
    return scored[0][1], scored[0][0]


def plan(trees, pinned=None):
    """trees: {relpath: ast.Module}.  Returns [(kind, relpath, scope, new, old, ratio)] -- renames that give pinned names back."""
    if pinned is None:
        if not PINNED.exists():
            return []
        pinned = json.loads(PINNED.read_text())
    out = []
    for rel, tree in trees.items():
        pin = pinned.get(rel)
        if not pin:
            continue
        cur = survey(tree)
        # functions / methods, per scope (module level, or one class)
        scopes = {""} | {q.split(".")[0] for q in pin["funcs"] if "." in q}
        for sc in sorted(scopes):
            inscope = lambda q: (("." not in q) if sc == "" else q.startswith(sc + "."))
            missing = [q for q in pin["funcs"] if inscope(q) and q not in cur["funcs"]]
            fresh = {q: fp for q, fp in cur["funcs"].items() if inscope(q) and q not in pin["names"]}
            for q in missing:
                got = _best(pin["funcs"][q], fresh)
                if got:
                    out.append(("func", rel, sc, got[0].split(".")[-1], q.split(".")[-1], round(got[1], 3)))
                    fresh.pop(got[0])
        for cls, pattrs in pin["attrs"].items():
            cattrs = cur["attrs"].get(cls)
            if cattrs is None:
                continue
            missing = [a for a in pattrs if a not in cattrs]
            fresh = {a: " | ".join(sorted(ctx)) for a, ctx in cattrs.items() if a not in pattrs}
            for a in missing:
                got = _best(" | ".join(sorted(pattrs[a])), fresh)
                if got:
                    out.append(("attr", rel, cls, got[0], a, round(got[1], 3)))
                    fresh.pop(got[0])
    return out


def apply(trees, renames):
    """rename new -> old throughout the package (every module): definitions, names, attributes, imports, keywords are left alone"""
    fmap = {new: old for kind, rel, sc, new, old, r in renames if kind == "func"}
    amap = {new: old for kind, rel, sc, new, old, r in renames if kind == "attr"}
    if not fmap and not amap:
        return 0
    n = 0
    for tree in trees.values():
        for node in ast.walk(tree):
            if isinstance(node, (ast.FunctionDef, ast.AsyncFunctionDef)) and node.name in fmap:
                node.name = fmap[node.name]
                n += 1
            elif isinstance(node, ast.Name) and node.id in fmap:
                node.id = fmap[node.id]
                n += 1
            elif isinstance(node, ast.Attribute) and (node.attr in fmap or node.attr in amap):
                node.attr = fmap.get(node.attr) or amap.get(node.attr)
                n += 1
            elif isinstance(node, ast.alias) and node.name in fmap and (node.asname is None):
                node.name = fmap[node.name]
                n += 1
    return n


def _write(repo_root="/repo"):
    root = Path(repo_root)
    out = {}
    for p in sorted((root / "src" / "pyhf").rglob("*.py")):
        rel = p.relative_to(root).as_posix()
        out[rel] = survey(ast.parse(p.read_text(encoding="utf-8")))
    PINNED.write_text(json.dumps(out, indent=0, sort_keys=True))
    print(f"{PINNED}: {len(out)} modules, {sum(len(v['funcs']) for v in out.values())} private functions, {sum(len(a) for v in out.values() for a in v['attrs'].values())} private attributes, {PINNED.stat().st_size} bytes")


if __name__ == "__main__":
    if "--write" in sys.argv:
        _write()
