"""Model of xml.etree.ElementTree elements and of the ROOT histogram store for the interpreter: enough to compose the
XML writer with the XML reader symbolically (C18)."""

from __future__ import annotations

from .alg import NotHandled, Obj, Poly, Undecided, to_poly


class Elem(Obj):
    def __init__(self, tag, attrib=None, text=None):
        super().__init__(tag, {})
        self.tag = tag
        self.attrs["tag"] = tag
        self.attrs["attrib"] = dict(attrib or {})
        self.attrs["text"] = text
        self.attrs["tail"] = None
        self.children = []
        self.closed = True

    def iter_all(self):
        out = [self]
        for c in self.children:
            out += c.iter_all()
        return out


def _elem(recv):
    if isinstance(recv, Obj) and recv.name == "xmltree" and isinstance(recv.attrs.get("root"), Elem):
        return recv.attrs["root"]  # ElementTree.parse(...) result: queries go to its root
    if not isinstance(recv, Elem):
        raise NotHandled()
    return recv


def mkpath(p):
    """pathlib.Path as an object with a string and a parent"""
    p = str(p).replace("//", "/")
    parent = p.rsplit("/", 1)[0] if "/" in p else "."
    o = Obj("path", {"p": p}, closed=True)
    o.attrs["parent"] = o if p == parent else (mkpath(parent) if p not in (".", "") else o)
    o.attrs["parents"] = []
    return o


def file_externals(fs, store):
    """pathlib / open / ElementTree.parse+tostring / uproot.recreate / shutil over a dict file system `fs`
    (path string -> root element of the XML document written there)."""
    def pstr(x):
        if isinstance(x, Obj) and x.name == "path":
            return x.attrs["p"]
        if isinstance(x, str):
            return x
        raise Undecided("a path that is neither a string nor a Path")

    def joinpath(recv, a, k):
        if not (isinstance(recv, Obj) and recv.name == "path"):
            raise NotHandled()
        p = recv.attrs["p"]
        for x in a:
            x = pstr(x)
            p = x if x.startswith("/") else (x if p in (".", "") else f"{p}/{x}")
        return mkpath(p)

    def open_(a, k):
        return Obj("file", {"path": pstr(a[0]), "mode": a[1] if len(a) > 1 else k.get("mode", "r")}, closed=True)

    def write(recv, a, k):
        if not (isinstance(recv, Obj) and recv.name == "file"):
            raise NotHandled()
        if isinstance(a[0], Obj) and a[0].name == "xmltext":
            fs[recv.attrs["path"]] = a[0].attrs["elem"]
        elif not isinstance(a[0], (str, bytes)):
            raise Undecided("write of something that is neither text nor a serialised element")
        return None

    def et_parse(a, k):
        src = a[0]
        if isinstance(src, Elem):
            return Obj("xmltree", {"root": src}, closed=True)
        p = pstr(src)
        if p not in fs:
            raise Undecided(f"the reader opens {p!r}; the writer produced {sorted(fs)}")
        return Obj("xmltree", {"root": fs[p]}, closed=True)

    def recreate(a, k):
        store.clear()  # uproot.recreate truncates: histograms of an earlier export into the same file are gone
        return Obj("rootfile", {"file_path": pstr(a[0])}, closed=True)

    return {
        "Path": lambda a, k: a[0] if isinstance(a[0], Obj) and a[0].name == "path" else mkpath(pstr(a[0])),
        ".joinpath": joinpath, "open": open_, ".write": write, "copyfile": lambda a, k: None, "recreate": recreate,
        "tostring": lambda a, k: Obj("xmltext", {"elem": a[0]}, closed=True),
        ".decode": lambda recv, a, k: recv if isinstance(recv, Obj) and recv.name == "xmltext" else (_ for _ in ()).throw(NotHandled()),
        "parse": et_parse,
    }


class SymStr(str):
    """The string str(x) of a symbolic number x: float(...) of it gives x back (text round trip of a number)."""

    def __new__(cls, poly):
        s = super().__new__(cls, f"«{poly}»")
        s.poly = poly
        return s


def externals(store):
    """store: dict histogram name -> data (the model of the ROOT file both sides use)."""
    def _str(a, k):
        v = a[0] if a else ""
        if isinstance(v, str):
            return v
        if isinstance(v, Obj) and v.name == "path":
            return v.attrs["p"]
        if isinstance(v, bool) or v is None:
            return str(v)
        p = to_poly(v)
        if p.is_const() and p.const_value().denominator == 1:
            return str(int(p.const_value()))
        return SymStr(p)

    def _float(a, k):
        v = a[0]
        if isinstance(v, SymStr):
            return v.poly
        if isinstance(v, str):
            try:
                return to_poly(float(v))
            except ValueError:
                raise Undecided(f"float({v!r})")
        return to_poly(v)

    def _export(a, k):
        if a[0] in store:
            raise Undecided(f"duplicate histogram {a[0]}")
        store[a[0]] = list(a[1]) if isinstance(a[1], (list, tuple)) else a[1]

    def _import(a, k):
        name = a[3] if len(a) > 3 else k.get("name")
        if name not in store:
            from .alg import _PyRaise
            raise _PyRaise("KeyError")  # the reader asks for a histogram the data file does not hold: uproot raises
        data = store[name]
        return (list(data), [Poly.atom(f"err<{name}>{j}") for j in range(len(data))])

    def _find(recv, a, k):
        e = _elem(recv)
        return next((c for c in e.children if c.tag == a[0]), None)

    def _findall(recv, a, k):
        e = _elem(recv)
        return [c for c in e.children if c.tag == a[0]]

    def _append(recv, a, k):
        e = _elem(recv)
        if not isinstance(a[0], Elem):
            raise Undecided("append of a non-element")
        e.children.append(a[0])

    def _passthrough_list(recv):
        if not isinstance(recv, list):
            raise NotHandled()
        return None

    def _bcast(x, n):
        return list(x) if isinstance(x, (list, tuple)) else [x] * n

    def _divide(a, k):
        x, y = a[0], a[1]
        if not isinstance(x, (list, tuple)) and not isinstance(y, (list, tuple)):
            if "where" in k and k["where"] is False:
                if "out" not in k:
                    raise Undecided("divide(where=...) without out=")
                return to_poly(k["out"])
            return to_poly(x) / to_poly(y)
        n = len(x) if isinstance(x, (list, tuple)) else len(y)
        xs, ys = _bcast(x, n), _bcast(y, n)
        wh = _bcast(k["where"], n) if "where" in k else [True] * n
        out = _bcast(k["out"], n) if "out" in k else [None] * n
        res = []
        for xi, yi, wi, oi in zip(xs, ys, wh, out):
            if not isinstance(wi, bool):
                raise Undecided("divide(where=<symbolic>)")
            if wi:
                res.append(to_poly(xi) / to_poly(yi))
            elif oi is None:
                raise Undecided("divide(where=...) without out=")
            else:
                res.append(to_poly(oi))
        return res

    def _multiply(a, k):
        x, y = a[0], a[1]
        if not isinstance(x, (list, tuple)) and not isinstance(y, (list, tuple)):
            return to_poly(x) * to_poly(y)
        n = len(x) if isinstance(x, (list, tuple)) else len(y)
        return [to_poly(xi) * to_poly(yi) for xi, yi in zip(_bcast(x, n), _bcast(y, n))]

    def _zeros_like(a, k):
        return [Poly() for _ in a[0]] if isinstance(a[0], (list, tuple)) else Poly()

    def _deep(x):
        from .listnp import T
        return T([_deep(y) for y in x]) if isinstance(x, (list, tuple)) else x

    def _asarray(a, k):
        from .listnp import T
        return a[0] if isinstance(a[0], T) else _deep(a[0])

    def _array(a, k):
        return _deep(a[0])

    return {
        "__elementwise__": True,
        "divide": _divide, "multiply": _multiply, "zeros_like": _zeros_like,
        # numpy's aliasing rules: asarray of an ARRAY is that array (in-place edits show through every alias), of a python
        # sequence a new array; array() always copies
        "asarray": _asarray, "array": _array,
        "Element": lambda a, k: Elem(a[0], {kk: vv for kk, vv in k.items()}),
        "str": _str, "float": _float,
        "_export_root_histogram": _export, "import_root_histogram": _import,
        "tqdm": lambda a, k: list(a[0]),
        ".find": _find, ".findall": _findall, ".append": _append,
        ".iter": lambda recv, a, k: _elem(recv).iter_all(),
        ".getroot": lambda recv, a, k: _elem(recv),
        ".set_description": lambda recv, a, k: _passthrough_list(recv),
        "cast": lambda a, k: a[1],
        "__len__": lambda v: len(v.children) if isinstance(v, Elem) else None,
    }
