"""Rule bookkeeping, three-valued outcomes, known findings, evidence, exit codes."""

from __future__ import annotations

import hashlib
import json
import os
import time
import sys
import traceback
from dataclasses import dataclass, field
from pathlib import Path
from typing import Optional

from . import astutil as A
from .loader import AnalysisError, Repo

VERIF = Path(__file__).resolve().parent.parent
EVIDENCE_DIR = VERIF / "evidence"
KNOWN_FILE = VERIF / "known_findings.json"


@dataclass
class Violation:
    prop: str
    rule: str
    relpath: str
    qualname: str
    construct: str
    what: str
    expected: str = ""
    found: str = ""
    line: int = 0
    path: list = field(default_factory=list)

    def key(self):
        return (self.prop, self.rule, self.relpath, self.qualname, self.construct)

    def asdict(self):
        return {
            "property": self.prop,
            "rule": self.rule,
            "relpath": self.relpath,
            "qualname": self.qualname,
            "construct": self.construct,
            "what": self.what,
            "expected": self.expected,
            "found": self.found,
            "line_informational": self.line,
            "path": self.path,
        }


@dataclass
class RuleRec:
    rid: str
    text: str
    group: str = ""
    floor: int = 0
    tier: str = "quick"
    instances: list = field(default_factory=list)  # (site, outcome, detail)
    undecided: int = 0


class Ctx:
    """One run of one property's rule set on one tree."""

    def __init__(self, prop: str, repo: Repo, tier: str = "quick"):
        self.prop = prop
        self.repo = repo
        self.tier = tier
        self.rules: dict[str, RuleRec] = {}
        self.violations: list[Violation] = []
        self.errors: list[str] = []
        self.funcs_analysed: set[str] = set()
        self.files_analysed: set[str] = set()
        self.call_sites = 0
        self.notes: list[str] = []
        self.extra: dict = {}

    # -- declaration ----------------------------------------------------
    def rule(self, rid: str, text: str, group: str = "", floor: int = 1, tier="quick") -> str:
        if rid not in self.rules:
            self.rules[rid] = RuleRec(rid=rid, text=text, group=group, floor=floor, tier=tier)
        return rid

    def touch(self, f):
        """Record that a function (loader.Func) was analysed."""
        self.funcs_analysed.add(f.key)
        self.files_analysed.add(f.relpath)

    def touch_file(self, relpath):
        self.files_analysed.add(relpath)

    # -- outcomes -------------------------------------------------------
    def holds(self, rid: str, site: str, detail: str = ""):
        self.rules[rid].instances.append((site, "HOLDS", detail))

    def violated(self, rid, where, construct, what, expected="", found="", node=None, path=None):
        """where: loader.Func, loader.Class, or (relpath, qualname)."""
        relpath, qual = _where(where)
        cons = A.short(construct, 300) if not isinstance(construct, str) else construct
        line = getattr(node if node is not None else (construct if not isinstance(construct, str) else None), "lineno", 0) or 0
        v = Violation(self.prop, rid, relpath, qual, cons, what, expected, found, line, path or [])
        self.violations.append(v)
        self.rules[rid].instances.append((f"{relpath}::{qual}: {cons}", "VIOLATED", what))

    def unrecognised(self, rid, where, construct, why):
        relpath, qual = _where(where)
        cons = A.short(construct, 200) if not isinstance(construct, str) else construct
        msg = f"{rid} {relpath}::{qual}: unrecognised construct `{cons}`: {why}"
        if os.environ.get("PYHFSA_TRACE") and sys.exc_info()[0] is not None:
            traceback.print_exc()  # analyst's aid only: where in the interpreter the construct was given up on
        self.errors.append(msg)
        self.rules[rid].instances.append((f"{relpath}::{qual}: {cons}", "UNRECOGNISED", why))

    def defer(self, structural, semantic, only=None):
        """`structural` rules know ONE code shape for a clause that the `semantic` (interpreted) rules decide from behaviour.
        When every semantic rule is fully decided and holds, a structural rule that does not find its shape -- or finds
        another one -- says nothing about behaviour: its VIOLATED / UNRECOGNISED outcomes become HOLDS with that
        explanation.  When a semantic rule reports anything, the structural reports stay (they localise the defect)."""
        undecided_only = False
        for sid in semantic:
            r = self.rules.get(sid)
            if r is None:
                return
            n_h = sum(1 for i in r.instances if i[1] == "HOLDS")
            if any(i[1] == "VIOLATED" for i in r.instances):
                return  # the semantic rule reports a defect: the structural reports stay, they localise it
            if any(i[1] != "HOLDS" for i in r.instances) or n_h < max(1, r.floor):
                undecided_only = True
        if undecided_only:
            # The rule that decides this clause from behaviour could not be evaluated on this tree, and the structural rule only says
            # `not written the way I know`: that is no evidence of a defect.  Its violations become `cannot decide` (exit 2).
            for rid in structural:
                r = self.rules.get(rid)
                if r is None:
                    continue
                for k, (site, outcome, detail) in enumerate(r.instances):
                    if outcome == "VIOLATED" and (only is None or only in str(site)):
                        r.instances[k] = (site, "UNRECOGNISED", f"{detail} -- but {', '.join(semantic)}, which decide(s) this clause from behaviour, could not be evaluated: not reported as a violation")
                        self.errors.append(f"{rid} {site}: code shape differs from the pattern this rule knows ({detail[:120]}) and {', '.join(semantic)} could not decide")
                self.violations = [v for v in self.violations if v.rule != rid or (only is not None and only not in f"{v.relpath}::{v.qualname}: {v.construct}")]
            return
        why = "code shape differs from the pattern this rule knows; the behaviour it stands for is decided by " + ", ".join(semantic)
        for rid in structural:
            r = self.rules.get(rid)
            if r is None:
                continue
            if not r.instances and only is None:
                r.instances.append((f"{rid}: no site of the known shape", "HOLDS", why))  # nothing of the shape this rule reads exists any more
                r.floor = 0
            changed = False
            for k, (site, outcome, detail) in enumerate(r.instances):
                if outcome in ("VIOLATED", "UNRECOGNISED") and (only is None or only in str(site)):
                    r.instances[k] = (site, "HOLDS", why)
                    changed = True
            if only is None:
                r.floor = min(r.floor, sum(1 for i in r.instances if i[1] in ("HOLDS", "VIOLATED")))  # fewer sites of the known shape: the semantic rules carry their own floors
            if changed:
                r.floor = min(r.floor, sum(1 for i in r.instances if i[1] in ("HOLDS", "VIOLATED")))
                self.violations = [v for v in self.violations if v.rule != rid or (only is not None and only not in f"{v.relpath}::{v.qualname}: {v.construct}")]
                self.errors = [e for e in self.errors if not (e.startswith(rid + " ") or e.startswith(rid + ":")) or (only is not None and only not in e)]
                self.notes.append(f"{rid}: deferred to {', '.join(semantic)}")

    def defer_within(self, rid, weak, strong, also=()):
        """Inside ONE rule: instances that only know a code shape (`weak(site, detail)` true) defer to the instances of the same rule
        that decide the clause by interpretation (`strong(site)` true) and to the rules in `also`: when all of those hold, a weak
        VIOLATED / UNRECOGNISED instance becomes HOLDS; when some of those could not be evaluated (and none is violated), a weak
        VIOLATED becomes `cannot decide`."""
        r = self.rules.get(rid)
        if r is None:
            return
        deciders = [i for i in r.instances if strong(str(i[0]))]
        for o in also:
            if o in self.rules:
                deciders += list(self.rules[o].instances)
        if not deciders or any(i[1] == "VIOLATED" for i in deciders):
            return
        all_hold = all(i[1] == "HOLDS" for i in deciders)
        touched = []
        for k, (site, outcome, detail) in enumerate(r.instances):
            if strong(str(site)) or not weak(str(site), str(detail)):
                continue
            if outcome in ("VIOLATED", "UNRECOGNISED") and all_hold:
                r.instances[k] = (site, "HOLDS", "code shape differs from the pattern this instance knows; the behaviour is decided by the interpreted instances of this rule" + (" and " + ", ".join(also) if also else ""))
                touched.append(str(site))
            elif outcome == "VIOLATED":
                r.instances[k] = (site, "UNRECOGNISED", f"{detail} -- but the interpreted instances that decide this clause could not be evaluated: not reported as a violation")
                self.errors.append(f"{rid} {site}: code shape differs from the pattern this instance knows and the interpreted instances could not decide")
                touched.append(str(site))
        if touched:
            keep = []
            for v in self.violations:
                vs = f"{v.relpath}::{v.qualname}: {v.construct}"
                keep.append(v) if not (v.rule == rid and vs in touched) else None
            self.violations = keep
            if all_hold:
                self.errors = [e for e in self.errors if not (e.startswith(rid + " ") and any(t in e for t in touched))]

    def undecided(self, rid, site, why):
        self.rules[rid].undecided += 1
        self.rules[rid].instances.append((site, "UNDECIDED", why))

    def error(self, msg):
        self.errors.append(msg)

    def note(self, msg):
        self.notes.append(msg)

    # -- summary --------------------------------------------------------
    def check_floors(self):
        for r in self.rules.values():
            n = sum(1 for i in r.instances if i[1] in ("HOLDS", "VIOLATED"))
            if n < r.floor and not any(i[1] == "UNRECOGNISED" for i in r.instances):
                self.errors.append(
                    f"{r.rid}: only {n} instance(s) decided, floor is {r.floor} "
                    f"(rule would pass vacuously; anchor moved?)"
                )


def _where(where):
    if isinstance(where, tuple):
        return where
    if hasattr(where, "qualname"):
        return where.relpath, where.qualname
    if hasattr(where, "name") and hasattr(where, "relpath"):
        return where.relpath, where.name
    raise TypeError(where)


# ----------------------------------------------------------------------
def load_known():
    if not KNOWN_FILE.exists():
        return []
    return json.loads(KNOWN_FILE.read_text())


def match_known(v: Violation, known):
    for k in known:
        if k.get("status", "known") != "known":
            continue
        if (
            k["property"] == v.prop
            and k["rule"] == v.rule
            and k["relpath"] == v.relpath
            and k["qualname"] == v.qualname
            and _norm(k["construct"]) == _norm(v.construct)
        ):
            return k
    return None


def _norm(s):
    return " ".join(s.split())


def finish(ctx: Ctx, t0: float, checker_cmd: str, explanation: str, assumptions: list,
           write_evidence=True, quiet=False) -> int:
    """Print the verdict lines, write evidence, return the exit code."""
    ctx.check_floors()
    known = load_known()
    new, kn = [], []
    for v in ctx.violations:
        k = match_known(v, known)
        (kn if k else new).append((v, k))
    out = []
    for v, k in kn:
        out.append(f"KNOWN-FINDING: property={ctx.prop} {v.rule} {v.relpath}::{v.qualname}: {k.get('what') or v.what}")
    replays = []
    if new:
        rp_dir = EVIDENCE_DIR / "replays"
        rp_dir.mkdir(parents=True, exist_ok=True)
        for v, _ in new:
            dg = hashlib.sha256("|".join(v.key()).encode()).hexdigest()[:10]
            rp = rp_dir / f"{ctx.prop}-{v.rule}-{dg}.json"
            if write_evidence:
                rp.write_text(json.dumps({**v.asdict(), "repo_root": str(ctx.repo.root), "tier": ctx.tier}, indent=1))
            replays.append(str(rp))
            out.append(
                f"VIOLATION property={ctx.prop} replay={rp}\n"
                f"  rule {v.rule} at {v.relpath}:{v.line} in {v.qualname}\n"
                f"  construct: {v.construct}\n  what: {v.what}"
                + (f"\n  expected: {v.expected}" if v.expected else "")
                + (f"\n  found: {v.found}" if v.found else "")
            )
    for e in ctx.errors:
        out.append(f"ANALYSIS-ERROR property={ctx.prop} {e}")

    obligations = sum(len([i for i in r.instances]) for r in ctx.rules.values())
    discharged = sum(len([i for i in r.instances if i[1] == "HOLDS"]) for r in ctx.rules.values())
    undec = sum(r.undecided for r in ctx.rules.values())
    code = 1 if new else (2 if ctx.errors else 0)
    wall = time.time() - t0

    if write_evidence:
        EVIDENCE_DIR.mkdir(exist_ok=True)
        rules = []
        samples = []
        for r in ctx.rules.values():
            rules.append(
                {
                    "id": r.rid,
                    "group": r.group,
                    "text": r.text,
                    "floor": r.floor,
                    "instances": len(r.instances),
                    "holds": sum(1 for i in r.instances if i[1] == "HOLDS"),
                    "violated": sum(1 for i in r.instances if i[1] == "VIOLATED"),
                    "undecided": r.undecided,
                    "sites": [f"{i[1]}: {i[0]}" + (f" -- {i[2]}" if i[2] else "") for i in r.instances[:40]],
                }
            )
            for i in r.instances[:2]:
                samples.append({"rule": r.rid, "site": i[0], "outcome": i[1], "detail": i[2]})
        distinct = len({(r.rid, i[0]) for r in ctx.rules.values() for i in r.instances})
        ev = {
            "property_id": ctx.prop,
            "tier": ctx.tier,
            "seed": int(os.environ.get("VERIF_SEED", "0") or 0),
            "level": "other",
            "coverage": {
                "explanation": explanation,
                "technique": "static analysis (AST / CFG / dataflow / tables); no code from /repo is executed",
                "obligations": obligations,
                "discharged": discharged,
                "undecided": undec,
                "known_findings_matched": len(kn),
                "new_violations": len(new),
                "evaluations": obligations,
                "distinct_nontrivial": distinct,
                "rule": "one obligation per (rule, site) found by scanning the current source; distinct = distinct (rule, site) pairs",
                "files": sorted(ctx.files_analysed),
                "functions": len(ctx.funcs_analysed),
                "function_list": sorted(ctx.funcs_analysed)[:200],
                "call_sites": ctx.call_sites,
                "repo_stats": ctx.repo.stats(),
                "source_digest": ctx.repo.digest(sorted(ctx.files_analysed) or None),
                "rules": rules,
                "samples": samples[:60],
                "checker_cmd": checker_cmd,
                "trusted_base": [
                    "CPython ast parser",
                    "pyhfsa resolver tables (backend handle = get_backend()[0], pyhf.default_backend, registries)",
                    "reference shapes encoded in pyhfsa/props/*.py",
                ],
                "notes": ctx.notes[:50],
                **ctx.extra,
            },
            "assumptions": assumptions,
            "wall_s": round(wall, 3),
            "violations": len(new),
        }
        (EVIDENCE_DIR / f"{ctx.prop}.json").write_text(json.dumps(ev, indent=1))
    if not quiet:
        for line in out:
            print(line)
        print(
            f"[{ctx.prop}/{ctx.tier}] rules={len(ctx.rules)} obligations={obligations} "
            f"holds={discharged} undecided={undec} known={len(kn)} new_violations={len(new)} "
            f"errors={len(ctx.errors)} files={len(ctx.files_analysed)} funcs={len(ctx.funcs_analysed)} "
            f"wall={wall:.2f}s -> exit {code}"
        )
    return code
