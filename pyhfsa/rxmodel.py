"""Regular expressions in interpreted fragments: evaluated by python's own `re` on CONCRETE strings (names of
parameters, channels ...), with compiled patterns as objects; a symbolic subject makes the fragment undecided."""

from __future__ import annotations

import ast
import re as _re

from . import astutil as A
from .alg import NotHandled, Obj, Undecided, to_poly


def _match(m):
    return None if m is None else Obj("match", {"groups": [m.group(0)] + list(m.groups()), "groupdict": m.groupdict()}, closed=True)


def _pat(x):
    if isinstance(x, Obj) and "pattern" in x.attrs:
        return x.attrs["pattern"], x.attrs.get("flags", 0)
    if isinstance(x, str):
        return x, 0
    raise Undecided("regular expression that is not a concrete string")


def externals():
    def modfn(kind):
        def f(a, k):
            if len(a) < 2:
                raise NotHandled()  # method form on a compiled pattern: see below
            pat, fl = _pat(a[0])
            if not isinstance(a[1], str):
                raise Undecided("regular expression applied to a symbolic string")
            return _match(getattr(_re, kind)(pat, a[1], fl))
        return f

    def meth(kind):
        def f(recv, a, k):
            if not (isinstance(recv, Obj) and "pattern" in recv.attrs):
                raise NotHandled()
            if not a or not isinstance(a[0], str):
                raise Undecided("regular expression applied to a symbolic string")
            return _match(getattr(_re, kind)(recv.attrs["pattern"], a[0], recv.attrs.get("flags", 0)))
        return f

    def group(recv, a, k):
        if not (isinstance(recv, Obj) and "groups" in recv.attrs):
            raise NotHandled()
        if a and isinstance(a[0], str):
            return recv.attrs["groupdict"][a[0]]
        return recv.attrs["groups"][int(to_poly(a[0]).const_value()) if a else 0]

    def groups(recv, a, k):
        if not (isinstance(recv, Obj) and "groups" in recv.attrs):
            raise NotHandled()
        return tuple(recv.attrs["groups"][1:])

    def compile_(a, k):
        if not a or not isinstance(a[0], str):
            raise NotHandled()
        return Obj("pattern", {"pattern": a[0]}, closed=True)

    def text_fn(name):
        # textwrap.fill / wrap / shorten / dedent on concrete strings (the standard library's own function: text in, text out)
        def f(a, k):
            import textwrap
            if not a or not isinstance(a[0], str):
                raise NotHandled()
            kw = {}
            for n_, v_ in k.items():
                kw[n_] = v_ if isinstance(v_, (bool, str)) or v_ is None else int(to_poly(v_).const_value())
            pos = [x if isinstance(x, (bool, str)) or x is None else int(to_poly(x).const_value()) for x in a[1:]]
            return getattr(textwrap, name)(a[0], *pos, **kw)
        return f

    ext = {"compile": compile_, ".group": group, ".groups": groups, "fill": text_fn("fill"), "wrap": text_fn("wrap"), "shorten": text_fn("shorten"), "dedent": text_fn("dedent")}
    for kind in ("search", "match", "fullmatch"):
        ext[kind] = modfn(kind)
        ext["." + kind] = meth(kind)
    return ext


def compiled_globals(module):
    """module-level NAME = re.compile(<constant>) -> {NAME: pattern object}"""
    out = {}
    for name, v in module.assigns.items():
        if isinstance(v, ast.Call) and (A.dotted(v.func) or "") == "re.compile" and v.args and isinstance(A.const_value(v.args[0]), str) and len(v.args) == 1 and not v.keywords:
            out[name] = Obj("pattern", {"pattern": A.const_value(v.args[0])}, closed=True)
    return out
