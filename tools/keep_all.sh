#!/bin/bash
# keep every confirmed seeded change that is not kept yet (results of tools/confirm_seed.py under /tmp/wt/confirm)
cd /verif
for f in /tmp/wt/confirm/*.json; do
  b=$(basename $f .json)
  ok=$(/venv/bin/python -c "import json,sys; r=json.load(open('$f')); print(1 if r.get('confirmed') else 0)" 2>/dev/null)
  case "$b" in r2_*) tag=r2; src=/tmp/wt/out2; rest=${b#r2_};; r3_*) tag=r3; src=/tmp/wt/out3; rest=${b#r3_};; r4_*) tag=r4; src=/tmp/wt/out4; rest=${b#r4_};; r5_*) tag=r5; src=/tmp/wt/out5; rest=${b#r5_};; r6_*) tag=r6; src=/tmp/wt/out6; rest=${b#r6_};; r7x_*) continue;; r7_*) tag=r7; src=/tmp/wt/out7; rest=${b#r7_};; *) tag=r1; src=/tmp/wt/out; rest=$b;; esac
  id=${rest%_*}; k=${rest##*_}
  if [ "$tag" = r1 ]; then name="$id-$k"; else name="$id-$tag-$k"; fi
  if [ "$id" = C05b ]; then name="C05-r3b-$k"; fi   # second C05 batch of round 3 (the first batch was discarded: its agent had read /verif)
  if [ "$ok" != 1 ]; then echo "NOT CONFIRMED: $b"; continue; fi
  if [ ! -d seeded/$name ]; then
    if [ "$tag" = r1 ]; then /venv/bin/python tools/keep_seed.py $id $k 2>&1 | tail -1; else /venv/bin/python tools/keep_seed.py $id $k --src $src --tag $tag 2>&1 | tail -1; fi
  fi
done
