#!/usr/bin/env python3
"""Run the checks against a seeded patch on a scratch copy of /repo/src (never touches /repo).

usage: try_seed.py <patch.diff> [<prop> ...]     (default: all properties)
Prints, per property, exit code and the rules that fired.
"""
import os
import shutil
import subprocess
import sys
import tempfile
from pathlib import Path

VERIF = Path(__file__).resolve().parent.parent
PY = "/venv/bin/python"
ALL = [f"C{i:02d}" for i in range(1, 21) if i != 15]


def main():
    patch = Path(sys.argv[1]).resolve()
    props = [p.upper() for p in sys.argv[2:]] or ALL
    base = "/dev/shm" if os.path.isdir("/dev/shm") else tempfile.gettempdir()
    tmp = Path(tempfile.mkdtemp(prefix="seedtry-", dir=base))
    try:
        shutil.copytree("/repo/src", tmp / "src", ignore=shutil.ignore_patterns("__pycache__"))
        pr = subprocess.run(["patch", "-p1", "-s", "-i", str(patch)], cwd=tmp, capture_output=True, text=True)
        if pr.returncode != 0:
            print("PATCH DOES NOT APPLY:", pr.stdout[-500:], pr.stderr[-500:])
            return 2
        fired_any = False
        for p in props:
            r = subprocess.run([PY, "-m", "pyhfsa", "check", p, "--repo", str(tmp), "--no-evidence"], cwd=VERIF, capture_output=True, text=True)
            rules = sorted({ln.split()[1] for ln in r.stdout.splitlines() if ln.strip().startswith("rule ")})
            errs = [ln for ln in r.stdout.splitlines() if ln.startswith("ANALYSIS-ERROR")]
            if r.returncode != 0:
                fired_any = True
                print(f"{p}: exit {r.returncode} rules={rules}")
                for ln in r.stdout.splitlines():
                    if ln.strip().startswith(("what:", "construct:")) or ln.startswith("ANALYSIS-ERROR"):
                        print("     ", ln.strip()[:260])
        if not fired_any:
            print("no check fired on this patch")
        return 0
    finally:
        shutil.rmtree(tmp, ignore_errors=True)


if __name__ == "__main__":
    sys.exit(main())
