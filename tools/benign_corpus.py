#!/usr/bin/env python3
"""Replay the behaviour-preserving maintainer changes kept under /verif/benign_corpus against the checks.

Each <ID>-b<k>/patch.diff was written by an agent that saw only the property text and a scratch worktree, and was asked for a
change a maintainer would make to the code implementing the property that keeps the property TRUE for every input
(refactor / re-expression through another API / hygiene / correct optimisation / free choice).  Every check must stay at
exit 0 on every one of them; EXPECTED_UNDECIDED lists the ones on which a check is allowed to say `cannot decide` (exit 2,
never a violation), with the reason.

usage: benign_corpus.py [NAME ...]      exit 0 iff every replay is as expected
"""
import os
import shutil
import subprocess
import sys
import tempfile
from concurrent.futures import ThreadPoolExecutor
from pathlib import Path

VERIF = Path(__file__).resolve().parent.parent
ALL = [f"C{i:02d}" for i in range(1, 21) if i != 15]
EXPECTED_UNDECIDED = {
    "C19-b4": ("C19", "the digest command hands the workspace and the algorithms to a NEW function of pyhf.utils that does the work of digest() without calling it; which of its parameters means what is not in the command-line contract table (C19.R1), and the command-line world does not model it (C19.R4)"),
}


def replay(name):
    patch = VERIF / "benign_corpus" / name / "patch.diff"
    base = "/dev/shm" if os.path.isdir("/dev/shm") else tempfile.gettempdir()
    tmp = Path(tempfile.mkdtemp(prefix="benign-corpus-", dir=base))
    try:
        shutil.copytree("/repo/src", tmp / "src", ignore=shutil.ignore_patterns("__pycache__"))
        pr = subprocess.run(["patch", "-p1", "-s", "-i", str(patch)], cwd=tmp, capture_output=True, text=True)
        if pr.returncode != 0:
            return name, "does not apply (the tree moved on)", {}
        codes = {}
        for p in ALL:
            r = subprocess.run(["/venv/bin/python", "-m", "pyhfsa", "check", p, "--repo", str(tmp), "--no-evidence", "--tier", "quick"], cwd=VERIF, capture_output=True, text=True, env=dict(os.environ, PYHFSA_IN_AUDIT="1"))
            if r.returncode != 0:
                codes[p] = r.returncode
        return name, None, codes
    finally:
        shutil.rmtree(tmp, ignore_errors=True)


def main():
    names = sys.argv[1:] or sorted(p.name for p in (VERIF / "benign_corpus").iterdir() if (p / "patch.diff").exists())
    bad = 0
    with ThreadPoolExecutor(max_workers=int(os.environ.get("PYHFSA_JOBS", "6"))) as ex:
        for name, skip, codes in ex.map(replay, names):
            if skip:
                print(f"BENIGN skip      {name}: {skip}")
                continue
            allowed = EXPECTED_UNDECIDED.get(name)
            unexpected = {p: c for p, c in codes.items() if not (allowed and p == allowed[0] and c == 2)}
            if unexpected:
                bad += 1
                print(f"BENIGN ALARM     {name}: {unexpected}")
            elif codes:
                print(f"BENIGN undecided {name}: {codes} (expected: {allowed[1][:90]}...)")
            else:
                print(f"BENIGN quiet     {name}")
    print(f"BENIGN summary: {len(names)} replays, {bad} with an unexpected verdict")
    return 1 if bad else 0


if __name__ == "__main__":
    sys.exit(main())
