#!/usr/bin/env python3
"""Replay the behaviour-preserving maintainer changes kept under /verif/benign_corpus against the checks.

Each <ID>-b<k>/patch.diff was written by an agent that saw only the property text and a scratch worktree, and was asked for a
change a maintainer would make to the code implementing the property that keeps the property TRUE for every input
(refactor / re-expression through another API / hygiene / correct optimisation / free choice).  Every check must stay at
exit 0 on every one of them; EXPECTED_UNDECIDED lists the ones on which a check is allowed to say `cannot decide` (exit 2,
never a violation), with the reason.

usage: benign_corpus.py [NAME ...]      exit 0 iff every replay is as expected
"""
import os
import shutil
import subprocess
import sys
import tempfile
from concurrent.futures import ThreadPoolExecutor
from pathlib import Path

VERIF = Path(__file__).resolve().parent.parent
ALL = [f"C{i:02d}" for i in range(1, 21) if i != 15]
_NEWCLS = "a private CLASS the refactoring introduces is reached through a classmethod / from rule code that inspects the old attributes directly; the object model only instantiates classes it is asked to construct"
EXPECTED_UNDECIDED = {
    # name -> {property: reason}; a check may answer `cannot decide` (exit 2) on these, never a violation
    "C19-b4": {"C19": "the digest command hands the workspace and the algorithms to a NEW function of pyhf.utils that does the work of digest() without calling it; which of its parameters means what is not in the command-line contract table (C19.R1), and the command-line world does not model it (C19.R4)"},
    "C12-d3": {p_: "_finalize_parameters_specs and _create_parameters_from_spec are MERGED into a private class with a classmethod constructor (`_ParameterLayout.from_requirements`): the pinned anchors are gone (no single function to relocate to) and the build-pipeline scenario does not model classmethods of classes it was not given" for p_ in ("C01", "C02", "C03", "C10", "C12", "C20")},
    "C17-d3": {"C17": "PatchSet delegates to a new private `_PatchRegistry`; the C17.R6 scenario code reads the set's own `_patches` list directly (python-level len() of a modelled instance)"},
    "C18-d3": {"C18": "build_measurement is split over a NamedTuple with a property and two helpers; the lumi unit scenario (C18.R2) and the whole-file cycle (C18.R5) are function-level interpretations that do not iterate a generator of modelled records"},
    "C02-d5": {"C02": "the unbatched constraint classes select row 0 of the access field at construction; the C02.R3 scenario hands the constructor a scalar stand-in where the new code iterates"},
    "C10-d5": {"C02": "same change as C02-d5 proposed for C10: `make_pdf` reads attributes (`_gather_indices`, `_rate_factors`) that only the new `_precompute` sets; the C02.R3 make_pdf scenario builds the object's attributes by hand"},
    "C13-d5": {"C05": "the jax objective stitches through module-level helpers of tensor/common.py operating on default_backend index tensors; the C05.R4 function-level scenario models `_TensorViewer`, not its extracted helpers"},
}


def replay(name):
    patch = VERIF / "benign_corpus" / name / "patch.diff"
    base = "/dev/shm" if os.path.isdir("/dev/shm") else tempfile.gettempdir()
    tmp = Path(tempfile.mkdtemp(prefix="benign-corpus-", dir=base))
    try:
        shutil.copytree("/repo/src", tmp / "src", ignore=shutil.ignore_patterns("__pycache__"))
        pr = subprocess.run(["patch", "-p1", "-s", "-i", str(patch)], cwd=tmp, capture_output=True, text=True)
        if pr.returncode != 0:
            return name, "does not apply (the tree moved on)", {}
        codes = {}
        for p in ALL:
            r = subprocess.run(["/venv/bin/python", "-m", "pyhfsa", "check", p, "--repo", str(tmp), "--no-evidence", "--tier", "quick"], cwd=VERIF, capture_output=True, text=True, env=dict(os.environ, PYHFSA_IN_AUDIT="1"))
            if r.returncode != 0:
                codes[p] = r.returncode
        return name, None, codes
    finally:
        shutil.rmtree(tmp, ignore_errors=True)


def main():
    names = sys.argv[1:] or sorted(p.name for p in (VERIF / "benign_corpus").iterdir() if (p / "patch.diff").exists())
    bad = 0
    with ThreadPoolExecutor(max_workers=int(os.environ.get("PYHFSA_JOBS", "6"))) as ex:
        for name, skip, codes in ex.map(replay, names):
            if skip:
                print(f"BENIGN skip      {name}: {skip}")
                continue
            allowed = EXPECTED_UNDECIDED.get(name) or {}
            unexpected = {p: c for p, c in codes.items() if not (p in allowed and c == 2)}
            if unexpected:
                bad += 1
                print(f"BENIGN ALARM     {name}: {unexpected}")
            elif codes:
                print(f"BENIGN undecided {name}: {codes} (expected: {next(iter(allowed.values()))[:90]}...)")
            else:
                print(f"BENIGN quiet     {name}")
    print(f"BENIGN summary: {len(names)} replays, {bad} with an unexpected verdict")
    return 1 if bad else 0


if __name__ == "__main__":
    sys.exit(main())
