#!/usr/bin/env python3
"""Store a CONFIRMED seeded change under /verif/seeded/<ID>-<k>/ (patch.diff, demo.py, meta.json).

usage: keep_seed.py <ID> <k> [--src /tmp/wt/out] [--tag r1]
Requires the confirmation record /tmp/wt/confirm/<tag-prefixed?><ID>_<k>.json written by confirm_seed.py with confirmed == true.
The stored meta.json says which property, what the change needs, what was run to confirm it, and which checks catch it
(computed now, on a scratch copy of /repo/src -- /repo itself is not touched).
"""
import json
import shutil
import subprocess
import sys
import tempfile
from pathlib import Path

VERIF = Path(__file__).resolve().parent.parent
PY = "/venv/bin/python"
ALL = [f"C{i:02d}" for i in range(1, 21) if i != 15]


def detect(patch):
    tmp = Path(tempfile.mkdtemp(prefix="keepseed-", dir="/dev/shm"))
    try:
        shutil.copytree("/repo/src", tmp / "src", ignore=shutil.ignore_patterns("__pycache__"))
        pr = subprocess.run(["patch", "-p1", "-s", "-i", str(patch)], cwd=tmp, capture_output=True, text=True)
        if pr.returncode:
            return {"error": "patch does not apply to the current /repo/src"}
        res = {}
        for p in ALL:
            r = subprocess.run([PY, "-m", "pyhfsa", "check", p, "--repo", str(tmp), "--no-evidence"], cwd=VERIF, capture_output=True, text=True)
            if r.returncode == 1:
                res[p] = sorted({ln.split()[1] for ln in r.stdout.splitlines() if ln.strip().startswith("rule ")})
        return res
    finally:
        shutil.rmtree(tmp, ignore_errors=True)


def main():
    pid, k = sys.argv[1], sys.argv[2]
    src = Path(sys.argv[sys.argv.index("--src") + 1]) if "--src" in sys.argv else Path("/tmp/wt/out")
    tag = sys.argv[sys.argv.index("--tag") + 1] if "--tag" in sys.argv else "r1"
    conf_path = Path("/tmp/wt/confirm") / (f"{pid}_{k}.json" if tag == "r1" else f"{tag}_{pid}_{k}.json")
    conf = json.load(open(conf_path))
    if not conf.get("confirmed"):
        print(f"NOT CONFIRMED: {conf_path}")
        return 1
    d = src / pid
    name = f"{pid}-{k}" if tag == "r1" else f"{pid}-{tag}-{k}"
    out = VERIF / "seeded" / name
    out.mkdir(parents=True, exist_ok=True)
    shutil.copy(d / f"patch{k}.diff", out / "patch.diff")
    shutil.copy(d / f"demo{k}.py", out / "demo.py")
    agent_meta = {}
    if (d / f"meta{k}.json").exists():
        try:
            agent_meta = json.load(open(d / f"meta{k}.json"))
        except Exception:
            agent_meta = {}
    caught = detect(out / "patch.diff")
    meta = {
        "property": pid,
        "origin": f"sub-agent given only the property text and a scratch worktree (round {tag[1:]})",
        "summary": agent_meta.get("summary", ""),
        "breaks": agent_meta.get("breaks", ""),
        "needs": agent_meta.get("needs", ""),
        "confirmed_by_me": {
            "where": "fresh scratch worktree of /repo at " + conf.get("head", "?") + " under /tmp/wtc (removed afterwards)",
            "ran": [
                f"python demo.py on the clean tree -> exit {conf.get('demo_clean_rc')}",
                f"git apply patch.diff -> exit {conf.get('apply_rc')}; python -m compileall -q src/pyhf -> exit {conf.get('compile_rc')}",
                f"python demo.py with the patch -> exit {conf.get('demo_patched_rc')}: {conf.get('demo_patched_tail', '')[-200:].strip()}",
                f"pytest ({conf.get('pytest_scope')}) with the patch: {conf.get('tests_run')} test cases in {conf.get('pytest_wall_s')} s; tests that pass in the baseline and fail now: {conf.get('regressions_vs_baseline')}",
            ] + ([conf["order_artefact_rerun"]] if conf.get("order_artefact_rerun") else []),
        },
        "caught_by": caught,
        "how_to_replay": "git -C /repo apply /verif/seeded/%s/patch.diff; cd /verif && /venv/bin/python -m pyhfsa check <ID>; git -C /repo checkout -- ." % name,
    }
    json.dump(meta, open(out / "meta.json", "w"), indent=1)
    print(f"kept {name}: caught_by={caught}")
    return 0


if __name__ == "__main__":
    sys.exit(main())
