#!/usr/bin/env python3
"""Round 7 confirmations ran the suite over xdist workers.  tests/test_examples.py::test_2bin_1channel[inprocess] (like tests/test_scripts.py)
passes only after tests/test_cli.py in the same process -- on the CLEAN tree too -- so a record whose only regression is that test is
re-judged by the targeted run `confirm_seed.py <ID> <k> --tag r7x tests/test_cli.py tests/test_examples.py` (record r7x_<ID>_<k>.json)."""
import json
import sys
from pathlib import Path

C = Path("/tmp/wt/confirm")
ART = {"tests.test_examples::test_2bin_1channel[inprocess]"}
for f in sorted(C.glob("r7_*.json")):
    if f.name.endswith(".junit.json"):
        continue
    r = json.load(open(f))
    if r.get("confirmed") or r.get("demo_clean_rc") != 0 or not r.get("demo_patched_rc") or r.get("compile_rc") != 0:
        continue
    reg = set(r.get("regressions_vs_baseline") or [])
    if reg and reg <= ART:
        x = C / f.name.replace("r7_", "r7x_", 1)
        if not x.exists():
            print("needs targeted rerun:", f.name)
            continue
        rx = json.load(open(x))
        if rx.get("confirmed") and not rx.get("regressions_vs_baseline"):
            r["order_artefact_rerun"] = f"{sorted(reg)} failed in the distributed run and again when tests/test_examples.py was run alone -- as it does on the CLEAN tree; run after tests/test_cli.py in one process (the suite's own order) with the patch applied: {rx.get('tests_run')} test cases, regressions {rx.get('regressions_vs_baseline')}"
            r["regressions_vs_baseline"] = []
            r["confirmed"] = True
            json.dump(r, open(f, "w"), indent=1)
            print("re-judged confirmed:", f.name)
