#!/usr/bin/env python3
"""Whole-tree behaviour-preserving transforms, to measure how brittle the checkers are.

  reformat : every module re-emitted with ast.unparse (comments gone, quotes/parentheses/line breaks normalised)
  restyle  : keyword arguments reversed, comparisons mirrored (a < b -> b > a), `if not c: A else: B` swapped
  rename   : in every function, local variables (assigned names that are not parameters, not global/nonlocal,
             not used by nested functions/comprehension leak) get the suffix `_r`
  hoist    : in function bodies, the first call nested as an argument of a statement-level call moves into a temporary
             (`y = f(a, g(b))` -> `_h1 = g(b); y = f(a, _h1)`) when everything evaluated before it is a plain name/constant
  unloop   : `x = [e for v in it if c]` (one generator, plain target) becomes an explicit loop with append
  ifexp    : `x = a if c else b` becomes an if/else statement; `return a if c else b` likewise

usage: benign.py <reformat|rename|restyle|hoist|unloop|ifexp> [PROP ...]   -> runs the checks on the transformed scratch copy
"""
import ast
import builtins
import os
import shutil
import subprocess
import sys
import tempfile
from pathlib import Path

VERIF = Path(__file__).resolve().parent.parent
ALL = [f"C{i:02d}" for i in range(1, 21) if i != 15]


class Renamer(ast.NodeTransformer):
    def __init__(self, mapping):
        self.m = mapping

    def visit_Name(self, node):
        if node.id in self.m:
            node.id = self.m[node.id]
        return node

    def visit_FunctionDef(self, node):
        return node  # do not descend into nested defs (handled separately, closures keep outer names)

    visit_AsyncFunctionDef = visit_FunctionDef
    visit_Lambda = visit_FunctionDef
    visit_ClassDef = visit_FunctionDef


def rename_function(fn):
    params = {a.arg for a in fn.args.posonlyargs + fn.args.args + fn.args.kwonlyargs}
    if fn.args.vararg:
        params.add(fn.args.vararg.arg)
    if fn.args.kwarg:
        params.add(fn.args.kwarg.arg)
    declared = set()
    nested_reads = set()
    stores = set()
    for n in ast.walk(fn):
        if isinstance(n, (ast.Global, ast.Nonlocal)):
            declared |= set(n.names)
    def walk(node, top=True):
        for c in ast.iter_child_nodes(node):
            if isinstance(c, (ast.FunctionDef, ast.AsyncFunctionDef, ast.Lambda, ast.ClassDef)):
                for x in ast.walk(c):
                    if isinstance(x, ast.Name):
                        nested_reads.add(x.id)
                if isinstance(c, (ast.FunctionDef, ast.AsyncFunctionDef, ast.ClassDef)):
                    nested_reads.add(c.name)
                continue
            if isinstance(c, ast.Name) and isinstance(c.ctx, ast.Store):
                stores.add(c.id)
            walk(c, False)
    walk(fn)
    cand = {s for s in stores if s not in params and s not in declared and s not in nested_reads and not s.startswith("__") and s != "_" and not hasattr(builtins, s)}
    mapping = {s: s + "_r" for s in cand}
    r = Renamer(mapping)
    fn.body = [r.visit(st) for st in fn.body]
    return len(mapping)


class Restyle(ast.NodeTransformer):
    """Behaviour-preserving restyling: keyword arguments in reverse order; `a < b` as `b > a` (and the like);
    `not a == b` as `a != b`; `x = x + y` kept; `if not c: A else: B` as `if c: B else: A`."""

    FLIP = {ast.Lt: ast.Gt, ast.Gt: ast.Lt, ast.LtE: ast.GtE, ast.GtE: ast.LtE}

    def visit_Call(self, node):
        self.generic_visit(node)
        kws = node.keywords
        if len(kws) >= 2 and all(k.arg is not None for k in kws):
            node.keywords = list(reversed(kws))
        return node

    def visit_Compare(self, node):
        self.generic_visit(node)
        if len(node.ops) == 1 and type(node.ops[0]) in self.FLIP and not any(isinstance(x, (ast.Call, ast.Await, ast.NamedExpr)) for x in ast.walk(node)):
            return ast.Compare(left=node.comparators[0], ops=[self.FLIP[type(node.ops[0])]()], comparators=[node.left])
        return node

    def visit_If(self, node):
        self.generic_visit(node)
        if node.orelse and isinstance(node.test, ast.UnaryOp) and isinstance(node.test.op, ast.Not) and not (len(node.orelse) == 1 and isinstance(node.orelse[0], ast.If)):
            return ast.If(test=node.test.operand, body=node.orelse, orelse=node.body)
        return node


def _plain(e):
    while isinstance(e, ast.Attribute):
        e = e.value
    return isinstance(e, (ast.Name, ast.Constant))


class Blocks(ast.NodeTransformer):
    """rewrites statement lists of FUNCTION bodies (nested blocks included; nested defs get their own counter)"""

    def __init__(self, mode):
        self.mode = mode
        self.n = 0
        self.depth = 0

    def visit_FunctionDef(self, node):
        self.depth += 1
        self.generic_visit(node)
        self.depth -= 1
        return node

    visit_AsyncFunctionDef = visit_FunctionDef

    def visit_Lambda(self, node):
        return node

    def visit_ClassDef(self, node):
        d, self.depth = self.depth, 0
        self.generic_visit(node)
        self.depth = d
        return node

    def generic_visit(self, node):
        super().generic_visit(node)
        if self.depth:
            for fld in ("body", "orelse", "finalbody"):
                b = getattr(node, fld, None)
                if isinstance(b, list) and b and isinstance(b[0], ast.stmt):
                    out = []
                    for st in b:
                        out.extend(self.rewrite(st))
                    setattr(node, fld, out)
        return node

    def rewrite(self, st):
        m = getattr(self, "do_" + self.mode)
        return m(st)

    # ---- hoist
    def do_hoist(self, st):
        if not isinstance(st, (ast.Assign, ast.Return, ast.Expr)) or not isinstance(st.value, ast.Call):
            return [st]
        call = st.value
        if not _plain(call.func):
            return [st]
        slots = [(call.args, i) for i in range(len(call.args))] + [(k, None) for k in call.keywords]
        for holder, i in slots:
            e = holder[i] if i is not None else holder.value
            if isinstance(e, ast.Starred) or (i is None and holder.arg is None):
                return [st]
            if isinstance(e, ast.Call):
                if any(isinstance(x, (ast.Yield, ast.YieldFrom, ast.Await, ast.NamedExpr)) for x in ast.walk(e)):
                    return [st]
                self.n += 1
                name = f"_h{self.n}"
                if i is not None:
                    holder[i] = ast.Name(id=name, ctx=ast.Load())
                else:
                    holder.value = ast.Name(id=name, ctx=ast.Load())
                return [ast.Assign(targets=[ast.Name(id=name, ctx=ast.Store())], value=e, lineno=st.lineno), st]
            if not _plain(e):
                return [st]
        return [st]

    # ---- unloop
    def do_unloop(self, st):
        if not (isinstance(st, (ast.Assign, ast.Return)) and isinstance(st.value, ast.ListComp)):
            return [st]
        lc = st.value
        if len(lc.generators) != 1 or lc.generators[0].is_async:
            return [st]
        g = lc.generators[0]
        if any(isinstance(x, (ast.Lambda, ast.NamedExpr, ast.ListComp, ast.SetComp, ast.DictComp, ast.GeneratorExp)) for x in ast.walk(lc.elt)) or any(isinstance(x, (ast.Lambda, ast.NamedExpr)) for i_ in g.ifs for x in ast.walk(i_)):
            return [st]
        loopvars = {x.id for x in ast.walk(g.target) if isinstance(x, ast.Name)}
        self.n += 1
        tgt = f"_l{self.n}"
        mp = {v: f"{v}_c{self.n}" for v in loopvars}
        r = Renamer(mp)
        target = r.visit(g.target)
        elt = r.visit(lc.elt)
        ifs = [r.visit(i_) for i_ in g.ifs]
        inner = ast.Expr(value=ast.Call(func=ast.Attribute(value=ast.Name(id=tgt, ctx=ast.Load()), attr="append", ctx=ast.Load()), args=[elt], keywords=[]))
        body = [inner]
        for i_ in reversed(ifs):
            body = [ast.If(test=i_, body=body, orelse=[])]
        st.value = ast.Name(id=tgt, ctx=ast.Load())
        return [ast.Assign(targets=[ast.Name(id=tgt, ctx=ast.Store())], value=ast.List(elts=[], ctx=ast.Load()), lineno=st.lineno),
                ast.For(target=target, iter=g.iter, body=body, orelse=[], lineno=st.lineno), st]

    # ---- ifexp
    def do_ifexp(self, st):
        if isinstance(st, ast.Assign) and len(st.targets) == 1 and isinstance(st.targets[0], ast.Name) and isinstance(st.value, ast.IfExp):
            v = st.value
            mk = lambda e: ast.Assign(targets=[ast.Name(id=st.targets[0].id, ctx=ast.Store())], value=e, lineno=st.lineno)
            return [ast.If(test=v.test, body=[mk(v.body)], orelse=[mk(v.orelse)])]
        if isinstance(st, ast.Return) and isinstance(st.value, ast.IfExp):
            v = st.value
            return [ast.If(test=v.test, body=[ast.Return(value=v.body)], orelse=[]), ast.Return(value=v.orelse)]
        return [st]


def transform(src: str, mode: str) -> str:
    tree = ast.parse(src)
    if mode == "restyle":
        tree = ast.fix_missing_locations(Restyle().visit(tree))
    if mode in ("hoist", "unloop", "ifexp"):
        tree = ast.fix_missing_locations(Blocks(mode).visit(tree))
    if mode == "rename":
        for n in ast.walk(tree):
            if isinstance(n, (ast.FunctionDef, ast.AsyncFunctionDef)):
                rename_function(n)
    return ast.unparse(tree) + "\n"


def main():
    mode = sys.argv[1]
    props = [p.upper() for p in sys.argv[2:]] or ALL
    base = "/dev/shm" if os.path.isdir("/dev/shm") else tempfile.gettempdir()
    tmp = Path(tempfile.mkdtemp(prefix=f"benign-{mode}-", dir=base))
    try:
        shutil.copytree("/repo/src", tmp / "src", ignore=shutil.ignore_patterns("__pycache__"))
        n = 0
        for p in (tmp / "src" / "pyhf").rglob("*.py"):
            s = p.read_text()
            try:
                t = transform(s, mode)
                compile(t, str(p), "exec")
            except Exception as e:
                print("skip", p, e)
                continue
            p.write_text(t)
            n += 1
        print(f"{mode}: {n} modules transformed in {tmp}")
        bad = 0
        for pr in props:
            r = subprocess.run(["/venv/bin/python", "-m", "pyhfsa", "check", pr, "--repo", str(tmp), "--no-evidence"], cwd=VERIF, capture_output=True, text=True)
            tail = r.stdout.strip().splitlines()[-1] if r.stdout.strip() else ""
            flag = "" if r.returncode == 0 else "   <<<<<<"
            print(f"{pr}: exit {r.returncode}{flag}")
            if r.returncode != 0:
                bad += 1
                for ln in r.stdout.splitlines():
                    if ln.startswith(("VIOLATION", "ANALYSIS-ERROR")) or ln.strip().startswith(("construct:", "what:")):
                        print("     ", ln.strip()[:230])
        print(f"{bad} of {len(props)} checks changed their verdict under `{mode}`")
        if "--keep" in sys.argv:
            print("kept", tmp)
            return 0
        return 0
    finally:
        if "--keep" not in sys.argv:
            shutil.rmtree(tmp, ignore_errors=True)


if __name__ == "__main__":
    sys.exit(main())
