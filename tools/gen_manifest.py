#!/usr/bin/env python3
"""Regenerate /verif/MANIFEST.json from the table below and the checker modules present."""

import json
import os
from pathlib import Path

VERIF = Path(__file__).resolve().parent.parent
PY = "/venv/bin/python"

BASELINE_CMD = "cd /repo && /venv/bin/python -m pytest -ra -q -p no:cacheprovider --timeout=900 --continue-on-collection-errors"

# id -> (technique, level text, level note, design ref)
TABLE = {
    "C01": ("AST/dataflow: neutral-element (FILL) table vs op_code, assembly term (ASM) of expected_data, canonical-order dependence (DEP), einsum axis roles (SHAPE)",
            "Decides, for all specs/parameter points, the structural necessary conditions of the rate formula: op_code->neutral default->routing, where-mask gating from presence masks, assembly order sum(prod(factors,(nominal+deltas))) with per-sample clip before per-bin clip, zero nominal for absent samples, one canonical (channel, sample, modifier) order used by nominal, masks and parameter selection, einsum axis roles. Does not decide numeric equality or the index arithmetic inside the viewers.",
            "Trusts the AST parser, the resolver of backend handles and histfactory_set, and the reference term for the rate formula.", "DESIGN.md §4 C01"),
    "C02": ("CFG path enumeration (RUNOFF) of aux-data offsets, constructor argument roles (ROLE/DEP), table agreement, ALG polynomial identities for width formulas",
            "Decides aux-data/parameter pairing on every CFG path of the two constraint loops, constraint constructor argument roles, main|aux layout order, joint = sum of all terms, pdf = exp(logpdf) and the shapesys/staterror width formulas as algebraic identities. Numeric log-density values are not decided.",
            "Trusts the AST parser, the statement CFG, the ALG normaliser (exact rationals).", "DESIGN.md §4 C02"),
    "C03": ("abstract interpretation of the tensor DSL in piecewise Laurent polynomials (ALG), exact-rational constant folding of A_inverse (FOLD), cache-refresh dataflow (CACHE), threshold/orientation comparison fast vs slow (CMP)",
            "Decides: cache refresh completeness w.r.t. alphasets shape (history clause); for codes 0,2,4p (and 1/4 with power atoms) the fast and slow implementations reduce to the same polynomial on every region of the real line cut at the extracted thresholds, value at 0/+1/-1, continuity (and C1/C2 for 4p) at thresholds, extrapolation slope; the 6x6 A_inverse literal is the exact inverse of the defining matrix. Floating-point behaviour near breakpoints is not decided.",
            "Trusts the ALG interpreter (exact Fractions), the einsum/where semantics table, the published piecewise definitions.", "DESIGN.md §4 C03"),
    "C04": ("sibling agreement of the four backend classes (SIB), callee/argument-role comparison of dist-object vs primitive (ROLE), ALG normal forms of hand-written log-densities, complement lint (STAB), dtype-at-construction lint (PREC)",
            "Decides structural agreement: same method set and signatures on four backends, distribution objects and primitives use the same callee with the same argument roles, poisson/normal = exp(log-variant), numpy and jax hand-written forms equal the reference forms symbolically, normal_cdf never forms a complement, tensor constructors receive the target dtype. Accuracy of library special functions is not decided.",
            "Trusts scipy/jax/torch/tfp primitives themselves; ALG normaliser.", "DESIGN.md §4 C04"),
    "C05": ("parameter-forwarding (FWD) and dependence (DEP) analysis over fit -> minimize -> shim -> minimiser, sibling agreement of the four shims, copy-before-write (EFFECT)",
            "Decides the wiring a correct fit needs: fixed-value pairing, POI forced fixed on copies, bounds/fixed values/init reach both minimisers through stitch and no-stitch arms, every shim arm evaluates objective(stitch_pars(pars), data, pdf), twice_nll = -2*logpdf, fixed values stitched back. Feasibility/optimality are numerical and not decided.",
            "Trusts scipy.optimize.minimize / iminuit keyword semantics.", "DESIGN.md §4 C05"),
    "C06": ("table check of get_test_stat, FWD of the public statistics, comparator orientation (CMP) and clip/difference shape (DEP) in _tmu_like/_qmu_like/q0, path constant mu=0",
            "Decides the case definitions structurally on every path: mapping name->function, argument forwarding, statistic = clip(fixed - free, 0), zeroing comparator orientation for q_mu-like and q0, q0 tests mu = 0. Closed-form values are not decided.",
            "Trusts tensorlib.where/clip semantics.", "DESIGN.md §4 C06"),
    "C07": ("ALG identities over atoms sqrt(q), sqrt(q_A) for the statistic->p-value composition, CMP on the branch predicate, STAB lint, table checks",
            "Decides as polynomial identities that the arguments of the tail probabilities are -sqrtq and -(sqrtq-sqrtqA) (q, q0, qtilde true branch) and -(q+qA)/(2 sqrtqA), -(q-qA)/(2 sqrtqA) (qtilde false branch), seam agreement, CLs = CLsb/CLb, clipped cutoff = -sqrtqA on both distributions, band order. Numeric inequalities are not decided.",
            "Trusts the ALG normaliser and normal_cdf monotonicity.", "DESIGN.md §4 C07"),
    "C08": ("exhaustive enumeration of the 32 flag x statistic configurations on the CFG of hypotest (CFGENUM), dominance of the prerequisite check (ORDER), DEP of the Asimov construction, cross-site default table",
            "Decides exhaustively the result layout for all request-flag combinations, that the prerequisite check dominates calculator creation and refuses missing/fixed POI, that Asimov data = expected_data(fixed-POI fit at mu_A) with mu_A = 1 iff q0, and cross-site default agreement. Agreement with analytic values is not decided.",
            "Trusts the statement CFG and the documented order.", "DESIGN.md §4 C08"),
    "C09": ("parameter-forwarding (FWD) and dependence (DEP) analysis over upper_limit -> linear_grid_scan / toms748_scan -> toms748 / hypotest, paired-reversal check",
            "Decides that the threshold and the hypotest options the caller passed reach both scan modes and every root-finder call, bracket predicates and bracket chooser; paired reversal in the grid interpolation; per-point results are the evaluated ones. Existence/accuracy of roots is not decided.",
            "Trusts scipy.optimize.toms748(args=) and numpy.interp semantics.", "DESIGN.md §4 C09"),
    "C10": ("axis-role inference (SHAPE) through tile/einsum, sibling comparison of batched vs unbatched arms, reduction-axis lint",
            "Decides batch-axis threading: tile position of the batch size in every mask, einsum batch letter on the batched arm only, flatten-before-gather on the batched arm, no full reduction on the batched path, row stripping only when unbatched. Row-by-row numeric equality is not decided.",
            "Trusts einsum subscript semantics.", "DESIGN.md §4 C10"),
    "C11": ("provenance typestate (PY/DEF/CUR) dataflow over 17 subscribing classes, CFG dominance in __init__ and set_backend, effect check of the weak callback registry",
            "Decides for all switch histories that every current-backend attribute of every persistent object is re-derived by a method subscribed to tensorlib_changed from backend-neutral sources in dependency order, that set_backend swaps before triggering with a name+precision condition, and that callbacks are weak and liveness-checked. Numerical equality after a switch and the jax jit cache are not decided.",
            "Trusts the backend-handle resolver and that callbacks run in subscription order.", "DESIGN.md §4 C11"),
    "C12": ("running-offset tiling on CFG paths (RUNOFF), sibling agreement of the suggestion methods, ownership/alias effect analysis (EFFECT), order-insensitivity of loop effects (ORDINS), writer/reader key table",
            "Decides that slices tile (offset advanced exactly once per iteration on every path), the four suggestion methods iterate the same order, specs are deep-copied on entry and never mutated, spec lists are consumed order-insensitively, data layout follows config.channels, and Workspace.build writes the keys the model reads. Numerical round trips are not decided.",
            "Trusts the effect table of externals (copy.deepcopy, jsonpatch).", "DESIGN.md §4 C12"),
    "C13": ("argument-role and sibling analysis of the three AD shims, taint analysis for graph-breaking conversions on the call graph from Model.logpdf",
            "Decides that each AD shim differentiates the value it returns w.r.t. the pre-stitch free parameters, and that no graph-breaking conversion touches parameter-derived data on the logpdf call graph. Correctness of AD itself is not decided.",
            "Trusts torch.autograd.grad / tf.GradientTape / jax.value_and_grad semantics.", "DESIGN.md §4 C13"),
    "C14": ("comparator/denominator check (CMP), pairing of samples, hypotheses and distributions (PAIR/DEP)",
            "Decides that the empirical p-value is sum(samples >= value)/len(samples), that signal/background samples, fits and distributions are paired correctly, and that sampling stitches through the viewer log_prob splits with. Sampling distributions are not decided.",
            "Trusts tensorlib.where/sum semantics.", "DESIGN.md §4 C14"),
    "C16": ("ownership/alias effect analysis with bottom-up summaries (EFFECT), exception-discipline and sibling comparison of the join helpers (RAISE/SIB), namespace table",
            "Decides that workspace operations never mutate their inputs, always return through the validating constructor, that conflict checks exist symmetrically in the three section joins, and that rename/prune are applied consistently per namespace. Likelihood equalities are not decided.",
            "Trusts the effect table.", "DESIGN.md §4 C16"),
    "C17": ("keyed-registration analysis (KEYREG), CFG dominance (ORDER), exception mapping (RAISE)",
            "Decides lookup-namespace purity, duplicate check before registration, KeyError->InvalidPatchLookup, verify compares every algorithm without early exit, digest uses sort_keys, verify dominates apply, apply is not in place.",
            "Trusts json.dumps(sort_keys) / jsonpatch semantics.", "DESIGN.md §4 C17"),
    "C18": ("writer/reader table inversion (TABLE), absolute/relative unit typing (UNIT), module-cache discipline (CACHE)",
            "Decides that writer and reader tag/attribute tables are inverse, that relative/absolute conversions are inverse in both directions, ROOT-name prefix tables agree, and that the module-level file cache cannot serve a previous import's data for a different file. Likelihood equality after the round trip is not decided.",
            "Trusts the unit algebra ABS/NOM=REL.", "DESIGN.md §4 C18"),
    "C19": ("click-decorator extraction, option->library-parameter forwarding (FWD) per subcommand, file-vs-stdout sibling comparison",
            "Decides that every declared option of every subcommand reaches the documented library parameter and that file and stdout arms serialise the same object with the same encoder options. Exit-status equivalence and numbers are not decided.",
            "Trusts click's option->parameter naming.", "DESIGN.md §4 C19"),
    "C20": ("exception discipline on the Model construction call graph (RAISE), keyed-registration guards (KEYREG), sibling bin-count checks (SIB), None-placeholder flow (NULL)",
            "Decides that raises on the construction closure are pyhf exception types, no assert guards spec-derived data, name-keyed registrations are guarded against duplicates, no first-wins registration of data-dependent requirements, bin-count checks exist in every data-carrying builder, None placeholders are rejected.",
            "Trusts the call-graph scope (closure of Model.__init__).", "DESIGN.md §4 C20"),
}

NA = {
    "C15": "metamorphic relation between whole inference runs (fits, CLs, limits) under model rewrites/rescaling/backends: every clause quantifies over fitted numbers; no structural clause is a necessary condition of C15 itself that is not already owned by C01/C04/C12 (DESIGN.md §5)",
}


def main():
    checks = []
    na = [{"property_id": k, "reason": v} for k, v in NA.items()]
    for pid, (tech, text, note, ref) in TABLE.items():
        if not (VERIF / "pyhfsa" / "props" / f"{pid.lower()}.py").exists():
            na.append({"property_id": pid, "reason": "check not built yet in this round (see DESIGN.md §4 for the planned static clauses)"})
            continue
        checks.append({
            "property_id": pid,
            "quick_cmd": f"{PY} -m pyhfsa check {pid} --tier quick",
            "thorough_cmd": f"{PY} -m pyhfsa check {pid} --tier thorough",
            "evidence_file": f"/verif/evidence/{pid}.json",
            "replay_cmd_template": f"{PY} -m pyhfsa replay {{path}}",
            "engine": "pyhfsa",
            "level_claimed": {"category": "other", "text": "PARTIAL claim (structural necessary conditions only, decided for all inputs/histories; the numerical behaviour is not decided). " + text, "design_ref": ref},
            "level_note": note + " The check reads /repo/src/pyhf afresh on every run; nothing from /repo is imported or executed.",
            "technique": "static analysis: " + tech,
        })
    man = {
        "version": 1,
        "setup_cmd": f"cd /verif && {PY} -m compileall -q pyhfsa",
        "hooks": {
            "guard": "PYHF_VERIF",
            "enable": "no hooks: the checks are purely static and need no instrumentation of /repo (guard name reserved, unused)",
            "baseline_off_cmd": BASELINE_CMD,
            "source_commits": [],
            "add_only": True,
        },
        "engines": [
            {"name": "pyhfsa", "path": "/verif/pyhfsa", "serves_properties": [c["property_id"] for c in checks],
             "kind_free_text": "repository-specific static analyser (stdlib ast): loader/resolver, statement CFG with dominators and path enumeration, dependence and provenance dataflow, parameter-forwarding, table/sibling comparison, exact-rational abstract interpretation of the tensor DSL"},
        ],
        "checks": checks,
        "not_applicable": sorted(na, key=lambda x: x["property_id"]),
        "notes": "All claims are partial (level 'other'): structural necessary conditions of each property decided from source; see DESIGN.md. known_findings.json lists genuine defects of the pinned tree that were recorded rather than repaired; fix: commits in /repo are listed there as 'fixed'.",
    }
    (VERIF / "MANIFEST.json").write_text(json.dumps(man, indent=1) + "\n")
    print(f"MANIFEST.json: {len(checks)} checks, {len(na)} not_applicable")


if __name__ == "__main__":
    main()
