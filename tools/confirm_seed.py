#!/usr/bin/env python3
"""Confirm a seeded change independently in a scratch worktree of /repo (outside /repo and /verif):

  1. demo passes on the clean tree, 2. patch applies and byte-compiles, 3. demo fails with the patch,
  4. the existing suite (or the given test files) has no test that passed in the baseline and fails now.

usage: confirm_seed.py <ID> <k> [--src DIR] [--tag r2] [--full | tests/test_a.py tests/test_b.py ...]
Writes /tmp/wt/confirm/<ID>_<k>.json ; removes the scratch worktree afterwards.
"""
import json
import os
import shutil
import subprocess
import sys
import time
import xml.etree.ElementTree as ET
from pathlib import Path

PY = "/venv/bin/python"
OUT = Path("/tmp/wt/confirm")


def sh(cmd, cwd, env=None, timeout=7200):
    return subprocess.run(cmd, cwd=cwd, env=env, capture_output=True, text=True, timeout=timeout)


def main():
    pid, k = sys.argv[1], sys.argv[2]
    rest = sys.argv[3:]
    tag = ""
    srcroot = "/tmp/wt/out"
    if "--src" in rest:
        i = rest.index("--src")
        srcroot = rest[i + 1]
        del rest[i:i + 2]
    if "--tag" in rest:
        i = rest.index("--tag")
        tag = rest[i + 1] + "_"
        del rest[i:i + 2]
    src = Path(srcroot) / pid
    patch, demo = src / f"patch{k}.diff", src / f"demo{k}.py"
    OUT.mkdir(parents=True, exist_ok=True)
    res = {"property": pid, "k": k, "patch": str(patch), "demo": str(demo), "started": time.strftime("%H:%M:%S")}
    wt = Path(f"/tmp/wtc/{tag}{pid}_{k}")
    if wt.exists():
        sh(["git", "-C", "/repo", "worktree", "remove", "--force", str(wt)], "/")
    wt.parent.mkdir(parents=True, exist_ok=True)
    r = sh(["git", "-C", "/repo", "worktree", "add", "-q", "--detach", str(wt), "HEAD"], "/")
    if r.returncode:
        res["error"] = "worktree: " + r.stderr
        (OUT / f"{tag}{pid}_{k}.json").write_text(json.dumps(res, indent=1))
        return 2
    try:
        shutil.copy("/repo/src/pyhf/_version.py", wt / "src/pyhf/_version.py")
        env = dict(os.environ, PYTHONPATH=str(wt / "src"), PYTHONDONTWRITEBYTECODE="1", OMP_NUM_THREADS="2", MKL_NUM_THREADS="2", OPENBLAS_NUM_THREADS="2", TF_NUM_INTRAOP_THREADS="2", TF_NUM_INTEROP_THREADS="2", XLA_FLAGS="--xla_cpu_multi_thread_eigen=false intra_op_parallelism_threads=2")
        res["head"] = sh(["git", "rev-parse", "--short", "HEAD"], wt).stdout.strip()
        d0 = sh([PY, str(demo)], wt, env, timeout=900)
        res["demo_clean_rc"] = d0.returncode
        res["demo_clean_tail"] = (d0.stdout + d0.stderr)[-400:]
        a = sh(["git", "apply", str(patch)], wt)
        res["apply_rc"] = a.returncode
        if a.returncode:
            res["apply_err"] = a.stderr[-400:]
            return 1
        c = sh([PY, "-m", "compileall", "-q", "src/pyhf"], wt, env)
        res["compile_rc"] = c.returncode
        d1 = sh([PY, str(demo)], wt, env, timeout=900)
        res["demo_patched_rc"] = d1.returncode
        res["demo_patched_tail"] = (d1.stdout + d1.stderr)[-600:]
        xdist = 0
        if "--xdist" in rest:
            i = rest.index("--xdist")
            xdist = int(rest[i + 1])
            del rest[i:i + 2]
        tests = [] if (not rest or rest == ["--full"]) else rest
        junit = OUT / f"{tag}{pid}_{k}.junit.xml"
        cmd = [PY, "-m", "pytest", "-q", "-p", "no:cacheprovider", "--timeout=900", "--continue-on-collection-errors", f"--junitxml={junit}"] + tests
        if xdist:
            cmd += ["-n", str(xdist)]
        t0 = time.time()
        t = sh(cmd, wt, env, timeout=3 * 3600)
        res["pytest_rc"] = t.returncode
        res["pytest_wall_s"] = round(time.time() - t0)
        res["pytest_scope"] = "full suite" if not tests else tests
        base = json.load(open("/tmp/wt/base_results.json"))
        reg, n = [], 0
        if junit.exists():
            for tc in ET.parse(junit).iter("testcase"):
                name = tc.get("classname") + "::" + tc.get("name")
                n += 1
                st = "pass"
                for ch in tc:
                    if ch.tag in ("failure", "error"):
                        st = "fail"
                    elif ch.tag == "skipped":
                        st = "skip"
                if base.get(name) == "pass" and st == "fail":
                    reg.append(name)
        if xdist and reg:
            # tests distributed over workers lose the order some of them rely on (tests/test_scripts.py after tests/test_cli.py ...):
            # every file with a regression is run again in ONE process, in the suite's own order, and judged by that run
            res["xdist_regressions_rerun"] = list(reg)
            files = sorted({"tests/" + "/".join(x.split("::")[0].split(".")[1:]) + ".py" for x in reg})
            if ("tests/test_scripts.py" in files or "tests/test_examples.py" in files) and "tests/test_cli.py" not in files:  # both pass only after tests/test_cli.py (checked on the clean tree)
                files = ["tests/test_cli.py"] + files
            junit2 = OUT / f"{tag}{pid}_{k}.rerun.junit.xml"
            sh([PY, "-m", "pytest", "-q", "-p", "no:cacheprovider", "--timeout=900", "--continue-on-collection-errors", f"--junitxml={junit2}"] + sorted(files), wt, env, timeout=3 * 3600)
            still = []
            seen = set()
            if junit2.exists():
                for tc in ET.parse(junit2).iter("testcase"):
                    name = tc.get("classname") + "::" + tc.get("name")
                    seen.add(name)
                    if name in reg and any(ch.tag in ("failure", "error") for ch in tc):
                        still.append(name)
            reg = still + [x for x in reg if x not in seen]
            res["pytest_scope"] = f"full suite over {xdist} workers; files with a failure run again in one process: {sorted(files)}"
        res["tests_run"] = n
        res["regressions_vs_baseline"] = reg
        res["confirmed"] = bool(res["demo_clean_rc"] == 0 and res["demo_patched_rc"] != 0 and res["compile_rc"] == 0 and n > 0 and not [x for x in reg if "test_hypotest_qmu_tilde[normal-50_bins]" not in x])
        return 0
    finally:
        res["finished"] = time.strftime("%H:%M:%S")
        (OUT / f"{tag}{pid}_{k}.json").write_text(json.dumps(res, indent=1))
        sh(["git", "-C", "/repo", "worktree", "remove", "--force", str(wt)], "/")
        shutil.rmtree(wt, ignore_errors=True)


if __name__ == "__main__":
    sys.exit(main())
