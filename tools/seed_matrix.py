#!/usr/bin/env python3
"""Run every check against every seeded change (scratch copies, never /repo) and print the detection matrix.

usage: seed_matrix.py [--dir DIR]   DIR holds <ID>/patch<k>.diff (default /verif/seeded then /tmp/wt/out)
"""
import concurrent.futures as cf
import json
import os
import shutil
import subprocess
import sys
import tempfile
from pathlib import Path

VERIF = Path(__file__).resolve().parent.parent
PY = "/venv/bin/python"
ALL = [f"C{i:02d}" for i in range(1, 21) if i != 15]


def patches(root):
    out = []
    for d in sorted(Path(root).iterdir()):
        if not d.is_dir():
            continue
        for p in sorted(d.glob("patch*.diff")):
            out.append((d.name, p))
    return out


def one(item):
    name, patch = item
    base = "/dev/shm" if os.path.isdir("/dev/shm") else tempfile.gettempdir()
    tmp = Path(tempfile.mkdtemp(prefix="seedmx-", dir=base))
    try:
        shutil.copytree("/repo/src", tmp / "src", ignore=shutil.ignore_patterns("__pycache__"))
        pr = subprocess.run(["patch", "-p1", "-s", "-i", str(patch)], cwd=tmp, capture_output=True, text=True)
        if pr.returncode != 0:
            return name, patch.name, {"error": "patch does not apply"}
        res = {}
        for p in ALL:
            r = subprocess.run([PY, "-m", "pyhfsa", "check", p, "--repo", str(tmp), "--no-evidence"], cwd=VERIF, capture_output=True, text=True)
            if r.returncode != 0:
                rules = sorted({ln.split()[1] for ln in r.stdout.splitlines() if ln.strip().startswith("rule ")})
                res[p] = {"exit": r.returncode, "rules": rules}
        return name, patch.name, res
    finally:
        shutil.rmtree(tmp, ignore_errors=True)


def main():
    root = sys.argv[2] if len(sys.argv) > 2 and sys.argv[1] == "--dir" else ("/verif/seeded" if any(Path("/verif/seeded").glob("*/patch*.diff")) else "/tmp/wt/out")
    items = patches(root)
    rows = []
    with cf.ThreadPoolExecutor(max_workers=8) as ex:
        for name, pn, res in ex.map(one, items):
            rows.append((name, pn, res))
            fired = {k: v for k, v in res.items() if isinstance(v, dict) and v.get("exit") == 1}
            err = {k: v for k, v in res.items() if isinstance(v, dict) and v.get("exit") == 2}
            print(f"{name:8s} {pn:14s} caught_by={ {k: v['rules'] for k, v in fired.items()} or '-'}  exit2={sorted(err) or '-'}" + ("  " + res["error"] if "error" in res else ""))
    json.dump([{"seed": n, "patch": p, "result": r} for n, p, r in rows], open("/dev/shm/seed_matrix.json", "w"), indent=1)


if __name__ == "__main__":
    main()
