#!/usr/bin/env python3
"""Recompute, for every kept seeded change under /verif/seeded, which checks report it (exit 1) on a scratch copy of
/repo/src with the patch applied, and store the answer in its meta.json (`caught_by`).  Prints the seeds nobody reports."""
import json
import shutil
import subprocess
import sys
import tempfile
from concurrent.futures import ThreadPoolExecutor
from pathlib import Path

VERIF = Path(__file__).resolve().parent.parent
PY = "/venv/bin/python"
ALL = [f"C{i:02d}" for i in range(1, 21) if i != 15]


def detect(seed):
    tmp = Path(tempfile.mkdtemp(prefix="refresh-", dir="/dev/shm"))
    try:
        shutil.copytree("/repo/src", tmp / "src", ignore=shutil.ignore_patterns("__pycache__"))
        pr = subprocess.run(["patch", "-p1", "-s", "-i", str(seed / "patch.diff")], cwd=tmp, capture_output=True, text=True)
        if pr.returncode:
            return seed, None
        res = {}
        for p in ALL:
            r = subprocess.run([PY, "-m", "pyhfsa", "check", p, "--repo", str(tmp), "--no-evidence"], cwd=VERIF, capture_output=True, text=True)
            if r.returncode == 1:
                res[p] = sorted({ln.split()[1] for ln in r.stdout.splitlines() if ln.strip().startswith("rule ")})
        return seed, res
    finally:
        shutil.rmtree(tmp, ignore_errors=True)


def main():
    seeds = [d for d in sorted((VERIF / "seeded").iterdir()) if (d / "patch.diff").exists() and (d / "meta.json").exists()]
    missed = []
    with ThreadPoolExecutor(max_workers=int(sys.argv[1]) if len(sys.argv) > 1 else 8) as ex:
        for seed, res in ex.map(detect, seeds):
            meta = json.loads((seed / "meta.json").read_text())
            if res is None:
                print(f"{seed.name}: patch does not apply to the current tree")
                continue
            meta["caught_by"] = res
            (seed / "meta.json").write_text(json.dumps(meta, indent=1))
            if not res:
                missed.append(seed.name)
    print(f"{len(seeds)} seeds; reported by no check: {missed or 'none'}")
    return 1 if missed else 0


if __name__ == "__main__":
    sys.exit(main())
